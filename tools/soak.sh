#!/bin/sh
# Soak: every quick check on the unchanged tree for a range of seeds; evidence is
# written to a scratch directory. Any non-zero exit is reported (and is a false
# alarm or a harness fault to investigate). Usage: tools/soak.sh <first> <last> [tier]
HERE=$(cd "$(dirname "$0")/.." && pwd)
first=${1:-2}; last=${2:-11}; tier=${3:-quick}
out=$(mktemp -d /tmp/verif-soak-XXXXXX)
bad=0
for seed in $(seq "$first" "$last"); do
	for p in C10 C15 C16 C18; do
		VERIF_SEED=$seed VERIF_OUT=$out "$HERE/check" $p "$tier" >"$out/$p.$seed.log" 2>&1
		rc=$?
		printf '%s seed=%s exit=%s %s\n' "$p" "$seed" "$rc" "$(tail -1 "$out/$p.$seed.log" | cut -c1-160)"
		[ $rc -eq 0 ] || bad=$((bad+1))
	done
done
echo "soak: $bad non-zero exits (logs in $out)"
[ $bad -eq 0 ] && rm -rf "$out"
exit $bad
