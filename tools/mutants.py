#!/usr/bin/env python3
"""Sensitivity / equivalence harness (a self-test of the machinery, not a check).

Each mutant is a textual edit of a scratch git worktree of /repo (never /repo
itself). For every mutant: the repository's own test-suite must still pass
(otherwise the mutant is reported as 'killed by tests' and skipped), then the
listed checks are run against the worktree through VERIF_REPO with a short
budget, output redirected away from /verif/evidence.

  tools/mutants.py [-b 10s] [-k pattern] [--save]     run (all | matching) mutants
  expect = set of properties that must raise a VIOLATION; every other claimed
           property is run too when --all-props is given and must stay silent.
"""
import argparse, json, os, re, shutil, subprocess, sys, tempfile, time

REPO = "/repo"
VERIF = os.path.dirname(os.path.dirname(os.path.abspath(__file__)))
ENV = dict(os.environ, GOFLAGS="-mod=mod", GOPROXY="off", GOSUMDB="off", GOTOOLCHAIN="local")
CLAIMED = ["C10", "C15", "C16", "C18"]

M = []
def mut(name, file, old, new, expect, note="", count=1, extra=(), allow=()):
    M.append(dict(name=name, edits=[(file, old, new, count)] + list(extra), expect=set(expect), allow=set(allow), note=note))

# ----------------------------------------------------------------- C10 sensitivity
mut("c10_bits_255", "scalar.go", "for i := range 256 {", "for i := range 255 {", ["C10"], "the original defect")
mut("c10_equal_drops_y", "element.go", "return int(x1z2.Equals(x2z1) & y1z2.Equals(y2z1))", "_ = y1z2\n\t_ = y2z1\n\n\treturn int(x1z2.Equals(x2z1))", ["C10"], "P equals -P")
mut("c10_decode_clobbers_on_failure", "element.go", "\ty, isSquare := field.New().SqrtRatio(&y2, field.New().One())\n\tif isSquare != 1 {", "\te.x.Set(x)\n\ty, isSquare := field.New().SqrtRatio(&y2, field.New().One())\n\tif isSquare != 1 {", ["C10"],
    "failed compressed decode overwrites the receiver's x")
mut("c10_negate_copy_shares", "element.go", "func (e *Element) Copy() *Element {\n\treturn e.copy()", "func (e *Element) Copy() *Element {\n\tif e.IsIdentity() {\n\t\treturn e\n\t}\n\n\treturn e.copy()", ["C10"], "Copy of the identity returns the receiver")
mut("c10_invert_zero_one", "scalar.go", "func (s *Scalar) Invert() *Scalar {\n\tscalar.Invert(&s.S, s.S)", "func (s *Scalar) Invert() *Scalar {\n\tif s.IsZero() {\n\t\treturn s.One()\n\t}\n\tscalar.Invert(&s.S, s.S)", ["C10"], "Invert(0) = 1")
mut("c10_h2g_oversize_dst_off_by_one", "xmd.go", "if len(dst) > dstMaxLength {", "if len(dst) > dstMaxLength+1 {", ["C10"], "a 256-byte DST is not hashed down (length byte wraps to 0)")
mut("c10_sub_leaves_unnormalised_argument_negated", "element.go", "q := element.copy().negate()\n\n\treturn e.add(q)", "q := element.copy().negate()\n\tif element != e && element.z.Equals(field.New().One()) != 1 {\n\t\telement.negate()\n\t}\n\n\treturn e.add(q)", ["C10", "C15", "C16"],
    "Subtract leaves its argument negated when the argument is not normalised (Z != 1)")
mut("c16_sub_negate_restore", "element.go", "q := element.copy().negate()\n\n\treturn e.add(q)", "if element != e {\n\t\telement.negate()\n\t\te.add(element)\n\t\telement.negate()\n\n\t\treturn e\n\t}\n\n\tq := element.copy().negate()\n\n\treturn e.add(q)", ["C15", "C16"],
    "Subtract negates the argument in place and restores it: sequentially invisible, a store to a shared argument")
mut("c10_pow_exponent_mod_n_minus_1", "scalar.go", "\tbigS.Exp(bigS, bigT, order)", "\tbigT.Mod(bigT, new(big.Int).Sub(order, big.NewInt(1)))\n\tbigS.Exp(bigS, bigT, order)", ["C10"], "exponent reduced mod n-1: 0^(n-1) becomes 0^0 = 1")
mut("c10_negate_identity_zeroes_y", "element.go", "func (e *Element) Negate() *Element {\n\tif e.IsIdentity() {\n\t\treturn e\n\t}", "func (e *Element) Negate() *Element {\n\tif e.IsIdentity() {\n\t\te.y.Set(&e.x)\n\n\t\treturn e\n\t}", ["C10"], "Negate of the identity produces (0:0:0), which compares equal to everything")

mut("c10_hidden_closure_state_every_211th_negate", "element.go", "func (e *Element) Negate() *Element {\n\tif e.IsIdentity() {", "var negateTick = func() func() bool {\n\tn := 0\n\n\treturn func() bool {\n\t\tn++\n\n\t\treturn n%211 == 0\n\t}\n}()\n\n// Negate negates.\nfunc (e *Element) Negate() *Element {\n\tif negateTick() {\n\t\treturn e\n\t}\n\n\tif e.IsIdentity() {", ["C10"],
    "state hidden in a closure (invisible to the package-state comparison): every 211th Negate in the process is skipped, so the failing run only fails after the runs that precede it in the same process - exercises the session replay. C16 may report it too (results depend on hidden mutable package state, so a call need not return what it returns when run alone) when the skipped call falls differently in the two executions it compares. C15 may report it through M-scribble when the skipped call happens to fall into the execution with caller writes but into neither reference execution: an artefact of a call-count-dependent library, tolerated here and described in DESIGN.md 6.2",
    allow=["C15", "C16"])

# ----------------------------------------------------------------- C15 sensitivity
mut("c15_vetdst_append", "xmd.go", "\tdstPrime := make([]byte, 0, len(dst)+1)\n\tdstPrime = append(dstPrime, dst...)\n\n\treturn append(dstPrime, i2osp1(uint(len(dst)))[0])", "\treturn append(dst, i2osp1(uint(len(dst)))[0])", ["C15", "C16"], "the original defect")
mut("c15_order_global", "group.go", "func Order() []byte {", "var orderBytes = []byte{\n\t255, 255, 255, 255, 255, 255, 255, 255, 255, 255, 255, 255, 255, 255, 255, 254,\n\t186, 174, 220, 230, 175, 72, 160, 59, 191, 210, 94, 140, 208, 54, 65, 65,\n}\n\n// Order returns the order.\nfunc Order() []byte {\n\tif true {\n\t\treturn orderBytes\n\t}\n", ["C15"], "Order returns a package-level slice")
mut("c15_encode_cached_identity", "element.go", "\tdel := subtle.ConstantTimeSelect(int(isIdentity), 1, elementLengthCompressed) // if identity, return only two bytes\n\n\treturn out[:del]", "\tdel := subtle.ConstantTimeSelect(int(isIdentity), 1, elementLengthCompressed) // if identity, return only two bytes\n\tif isIdentity == 1 {\n\t\treturn identityEncoding\n\t}\n\n\treturn out[:del]", ["C15"],
    "Encode of the identity returns a shared package-level slice", extra=[("element.go", "var identity = Element{", "var identityEncoding = []byte{0}\n\nvar identity = Element{", 1)])
mut("c15_decode_writes_same_value", "element.go", "\tif data[0] != encodingPrefixEven && data[0] != encodingPrefixOdd {\n\t\treturn errParamInvalidPointEncoding\n\t}", "\tif data[0] != encodingPrefixEven && data[0] != encodingPrefixOdd {\n\t\treturn errParamInvalidPointEncoding\n\t}\n\n\tdata[0] &= 3", ["C15", "C16"],
    "DecodeCompressed stores an identical value into its input (invisible to before/after comparison)")
mut("c15_scalar_decode_scratch_in_input", "scalar.go", "\tif scalar.ReduceBytes(&s.S, [scalarLength]byte(in)) == 0 {", "\tin[31], in[0] = in[0], in[31]\n\tin[31], in[0] = in[0], in[31]\n\tif scalar.ReduceBytes(&s.S, [scalarLength]byte(in)) == 0 {", ["C15", "C16"],
    "Scalar.Decode swaps two input bytes and swaps them back")
mut("c15_xcoordinate_aliases_later", "element.go", "func (e *Element) XCoordinate() []byte {\n\treturn e.Encode()[1:]", "var xcoordBuf [33]byte\n\n// XCoordinate returns x.\nfunc (e *Element) XCoordinate() []byte {\n\tcopy(xcoordBuf[:], e.Encode())\n\treturn xcoordBuf[1:]", ["C15", "C16"], "XCoordinate returns a slice of a reused package buffer")
mut("c15_marshal_shares_with_hash_input", "group.go", "\tuniform := expandXMD(input, dst, uint(secLength))\n\ts := NewScalar()", "\tif len(input) > 0 && cap(input) > len(input) {\n\t\t_ = append(input, 0)\n\t}\n\tuniform := expandXMD(input, dst, uint(secLength))\n\ts := NewScalar()", ["C15", "C16"],
    "HashToScalar appends into the message's spare capacity")

# ----------------------------------------------------------------- C16 sensitivity
mut("c16_global_hash", "xmd.go", "\th := crypto.SHA256.New()\n\tdst = vetDSTXMD(h, dst)", "\tif sharedHash == nil {\n\t\tsharedHash = crypto.SHA256.New()\n\t}\n\th := sharedHash\n\tdst = vetDSTXMD(h, dst)", ["C16"], "package-level reusable hash",
    extra=[("xmd.go", "var errZeroLenDST = ", "var sharedHash hash.Hash\n\nvar errZeroLenDST = ", 1)])
mut("c16_base_memo", "group.go", "func Base() *Element {\n\treturn newElement().Base()", "var baseMemo *Element\n\n// Base returns the generator.\nfunc Base() *Element {\n\tif baseMemo == nil {\n\t\tbaseMemo = newElement().Base()\n\t}\n\n\treturn baseMemo.copy()", ["C16"], "Base() memoised without synchronisation")
mut("c16_scratch_global", "element.go", "\tt0 := field.New().Multiply(&u.x, &v.x) // t0 := X1 * X2\n\tt1 := field.New().Multiply(&u.y, &v.y) // t1 := Y1 * Y2", "\tt0 := scratchT0.Multiply(&u.x, &v.x) // t0 := X1 * X2\n\tt1 := field.New().Multiply(&u.y, &v.y) // t1 := Y1 * Y2", ["C16"], "package-level scratch element in the addition formula",
    extra=[("element.go", "var identity = Element{", "var scratchT0 = field.New()\n\nvar identity = Element{", 1)])
mut("c16_equal_normalises_argument", "element.go", "func (e *Element) isEqual(u *Element) int {\n", "func (e *Element) isEqual(u *Element) int {\n\tif u.z.IsZero() == 0 {\n\t\ta := u.affine()\n\t\tu.x.Set(&a.x)\n\t\tu.y.Set(&a.y)\n\t\tu.z.One()\n\t}\n\n", ["C15", "C16"],
    "Equal normalises its argument in place (value preserved)")
mut("c16_pow_shared_bigint", "scalar.go", "\tbigS := big.NewInt(0).SetBytes(s.Encode())", "\tbigS := powScratch.SetBytes(s.Encode())", ["C16"], "Pow uses a package-level big.Int as scratch",
    extra=[("scalar.go", "type disallowEqual [0]func()", "var powScratch = new(big.Int)\n\ntype disallowEqual [0]func()", 1)])
mut("c16_counter_global", "group.go", "func HashToGroup(input, dst []byte) *Element {\n", "var h2gCalls uint64\n\n// HashToGroup hashes.\nfunc HashToGroup(input, dst []byte) *Element {\n\th2gCalls++\n", ["C16"], "a statistics counter kept in a package-level variable")
mut("c16_mul_caches_last_scalar_bits", "element.go", "\tbits := s.Bits()\n", "\tif lastBitsFor == nil || lastBitsFor.Equal(s) != 1 {\n\t\tlastBitsFor = s.Copy()\n\t\tlastBits = s.Bits()\n\t}\n\tbits := lastBits\n", ["C16"],
    "Multiply memoises the bit expansion of the last scalar in package state (check-then-act race)",
    extra=[("element.go", "var identity = Element{", "var (\n\tlastBitsFor *Scalar\n\tlastBits    [256]uint8\n)\n\nvar identity = Element{", 1)])

# ----------------------------------------------------------------- C18 sensitivity
mut("c18_ignore_error", "scalar.go", "\t\t_, err := io.ReadFull(rand.Reader, buf[:])\n\t\tif err != nil {\n\t\t\tpanic(err)\n\t\t}", "\t\t_, _ = io.ReadFull(rand.Reader, buf[:])", ["C18"], "source failure ignored")
mut("c18_zero_on_error", "scalar.go", "\t\tif err != nil {\n\t\t\tpanic(err)\n\t\t}\n\n\t\tnm := scalar.BytesToNonMontgomery(buf)", "\t\tif err != nil {\n\t\t\treturn s.One()\n\t\t}\n\n\t\tnm := scalar.BytesToNonMontgomery(buf)", ["C18"], "returns a fixed value when the source fails")
mut("c18_eof_tolerated", "scalar.go", "\t\tif err != nil {\n\t\t\tpanic(err)\n\t\t}", "\t\tif err != nil && err != io.ErrUnexpectedEOF {\n\t\t\tpanic(err)\n\t\t}", ["C18"], "a partial block at EOF is used")
mut("c18_reuses_partial_buffer", "scalar.go", "\tfor scalar.IsFEZero(&m) == 1 {\n\t\t_, err := io.ReadFull(rand.Reader, buf[:])", "\tfor scalar.IsFEZero(&m) == 1 {\n\t\t_, err := io.ReadFull(rand.Reader, buf[1:])", ["C18"], "only 31 fresh bytes per block")

mut("c18_read_not_readfull", "scalar.go", "\t\t_, err := io.ReadFull(rand.Reader, buf[:])", "\t\t_, err := io.Reader(rand.Reader).Read(buf[:])", ["C18"], "short reads accepted")
mut("c18_zero_test_on_raw_block", "scalar.go", "\tfor scalar.IsFEZero(&m) == 1 {", "\tfor again := true; again; {", ["C18"], "retry decided on the raw block: a block equal to n yields 0",
    extra=[("scalar.go", "\t\tnm := scalar.BytesToNonMontgomery(buf)\n", "\t\tnm := scalar.BytesToNonMontgomery(buf)\n\t\tagain = nm[0]|nm[1]|nm[2]|nm[3] == 0\n", 1)])

# ----------------------------------------------------------------- equivalence (must stay silent everywhere)
mut("eq_negate_no_shortcut", "element.go", "func (e *Element) Negate() *Element {\n\tif e.IsIdentity() {\n\t\treturn e\n\t}\n\n\treturn e.negate()", "func (e *Element) Negate() *Element {\n\treturn e.negate()", [], "(0:1:0) -> (0:-1:0) is still the identity")
mut("eq_identity_y5", "element.go", "\ty: *field.New().One(),\n\tz: *field.New(), // The Identity", "\ty: *field.New().Add(field.New().One(), field.New().Add(field.New().One(), field.New().One())),\n\tz: *field.New(), // The Identity", [], "identity stored as (0:3:0)")
mut("eq_sub_via_set", "element.go", "q := element.copy().negate()\n\n\treturn e.add(q)", "q := newEmptyElement().set(element).negate()\n\n\treturn e.add(q)", [], "Subtract copies through Set")
mut("eq_copy_struct", "element.go", "func (e *Element) Copy() *Element {\n\treturn e.copy()", "func (e *Element) Copy() *Element {\n\tc := Element{x: e.x, y: e.y, z: e.z}\n\n\treturn &c", [], "Copy by struct literal")
mut("eq_encode_normalises_receiver", "element.go", "func (e *Element) Encode() []byte {\n\tvar out [elementLengthCompressed]byte\n\tisIdentity := e.z.IsZero()\n\taffine := e.affine()", "func (e *Element) Encode() []byte {\n\tvar out [elementLengthCompressed]byte\n\tisIdentity := e.z.IsZero()\n\taffine := e.affine()\n\tif isIdentity == 0 {\n\t\te.x.Set(&affine.x)\n\t\te.y.Set(&affine.y)\n\t\te.z.One()\n\t}", [],
    "Encode normalises its (owned) receiver in place")
mut("eq_random_wraps_error", "scalar.go", "\t\tif err != nil {\n\t\t\tpanic(err)\n\t\t}", "\t\tif err != nil {\n\t\t\tpanic(fmt.Errorf(\"entropy source failed: %w\", err))\n\t\t}", [], "panic value wraps the error")
mut("eq_random_readatleast", "scalar.go", "io.ReadFull(rand.Reader, buf[:])", "io.ReadAtLeast(rand.Reader, buf[:], len(buf))", [], "ReadAtLeast instead of ReadFull")
mut("eq_scalar_decode_atomic", "scalar.go", "\tif scalar.ReduceBytes(&s.S, [scalarLength]byte(in)) == 0 {\n\t\treturn errParamScalarTooBig\n\t}", "\tvar tmp scalar.MontgomeryDomainFieldElement\n\tif scalar.ReduceBytes(&tmp, [scalarLength]byte(in)) == 0 {\n\t\treturn errParamScalarTooBig\n\t}\n\n\tcopy(s.S[:], tmp[:])", [],
    "rejected out-of-range decode leaves the receiver unchanged (unspecified behaviour)")
mut("eq_dstprime_other_alloc", "xmd.go", "\tdstPrime := make([]byte, 0, len(dst)+1)\n\tdstPrime = append(dstPrime, dst...)\n", "\tdstPrime := append([]byte(nil), dst...)\n", [], "DST' built with a different allocation pattern")
mut("eq_add_reordered", "element.go", "\tt0 := field.New().Multiply(&u.x, &v.x) // t0 := X1 * X2\n\tt1 := field.New().Multiply(&u.y, &v.y) // t1 := Y1 * Y2\n\tt2 := field.New().Multiply(&u.z, &v.z) // t2 := Z1 * Z2", "\tt2 := field.New().Multiply(&u.z, &v.z) // t2 := Z1 * Z2\n\tt1 := field.New().Multiply(&u.y, &v.y) // t1 := Y1 * Y2\n\tt0 := field.New().Multiply(&u.x, &v.x) // t0 := X1 * X2", [], "independent statements reordered")
mut("eq_local_readonly_table", "group.go", "func Order() []byte {", "var orderTable = [32]byte{\n\t255, 255, 255, 255, 255, 255, 255, 255, 255, 255, 255, 255, 255, 255, 255, 254,\n\t186, 174, 220, 230, 175, 72, 160, 59, 191, 210, 94, 140, 208, 54, 65, 65,\n}\n\n// Order returns the order.\nfunc Order() []byte {\n\tif true {\n\t\tout := orderTable\n\t\treturn out[:]\n\t}\n", [], "Order copies from a read-only package table")
mut("eq_random_no_reduce", "scalar.go", "\t\t_ = scalar.Reduce(nm)\n", "", [], "the explicit reduction is redundant: ToMontgomery of a value < 2^256 is already canonical")
mut("eq_random_strict_on_any_error", "scalar.go", "\t\t_, err := io.ReadFull(rand.Reader, buf[:])\n\t\tif err != nil {\n\t\t\tpanic(err)\n\t\t}", "\t\tfor n := 0; n < len(buf); {\n\t\t\tk, err := io.Reader(rand.Reader).Read(buf[n:])\n\t\t\tn += k\n\t\t\tif err != nil {\n\t\t\t\tpanic(err)\n\t\t\t}\n\t\t}", [],
    "own read loop that panics on any error, even one delivered with the completing bytes")
mut("c18_random_retries_after_failure", "scalar.go", "\t\t_, err := io.ReadFull(rand.Reader, buf[:])\n\t\tif err != nil {\n\t\t\tpanic(err)\n\t\t}", "\t\t_, err := io.ReadFull(rand.Reader, buf[:])\n\t\tfor try := 0; err != nil && try < 3; try++ {\n\t\t\t_, err = io.ReadFull(rand.Reader, buf[:])\n\t\t}\n\t\tif err != nil {\n\t\t\tpanic(err)\n\t\t}", ["C18"],
    "a failed block read is retried (whole block, fresh bytes) up to three times before panicking. Judgment call (DESIGN.md 6.2): the statement says a failing source causes a panic, so returning normally after the source failed inside a block is reported")
mut("eq_h2g_parallel_correct", "group.go", "\tq0 := SSWU(u0)\n\tq1 := SSWU(u1)\n", "\tvar (\n\t\twg     sync.WaitGroup\n\t\tq0, q1 *Element\n\t)\n\n\twg.Add(2)\n\n\tgo func() {\n\t\tdefer wg.Done()\n\n\t\tq0 = SSWU(u0)\n\t}()\n\tgo func() {\n\t\tdefer wg.Done()\n\n\t\tq1 = SSWU(u1)\n\t}()\n\twg.Wait()\n", [],
    "HashToGroup maps its two field elements in two goroutines, correctly joined and sharing nothing: every configuration then runs under the scheduler and must stay silent",
    extra=[("group.go", "import (\n", "import (\n\t\"sync\"\n\n", 1)])
mut("eq_h2s_waits_for_a_real_timer", "group.go", "\tuniform := expandXMD(input, dst, uint(secLength))\n\ts := NewScalar()\n", "\tcheckDST(dst)\n\n\tdone := make(chan []byte)\n\n\tgo func() { done <- expandXMD(input, dst, uint(secLength)) }()\n\n\tvar uniform []byte\n\n\tselect {\n\tcase uniform = <-done:\n\tcase <-time.After(time.Minute):\n\t\tpanic(\"hashing did not finish\")\n\t}\n\n\t<-time.After(200 * time.Microsecond) // pointless but legal: waits for the real clock\n\n\ts := NewScalar()\n", [],
    "HashToScalar hashes in a goroutine it joins through a select with a timeout, then waits for a real timer: every task is then blocked on a channel with nothing runnable until the real clock fires - that is not a deadlock",
    extra=[("group.go", "import (\n", "import (\n\t\"time\"\n\n", 1)])
mut("eq_percall_oncevalue", "group.go", "\tuniform := expandXMD(input, dst, uint(secLength))\n\ts := NewScalar()\n", "\tget := sync.OnceValue(func() []byte { return expandXMD(input, dst, uint(secLength)) })\n\tuniform := get()\n\t_ = get()\n\ts := NewScalar()\n", [],
    "HashToScalar computes through a sync.OnceValue created inside the call: per-call state, not package state (only once-functions created during package initialisation are)",
    extra=[("group.go", "import (\n", "import (\n\t\"sync\"\n\n", 1)])
mut("eq_random_bytereader_fast_path_correct", "scalar.go", "\t\t_, err := io.ReadFull(rand.Reader, buf[:])\n\t\tif err != nil {\n\t\t\tpanic(err)\n\t\t}\n", "\t\tif br, ok := rand.Reader.(io.ByteReader); ok {\n\t\t\tfor i := range buf {\n\t\t\t\tb, err := br.ReadByte()\n\t\t\t\tif err != nil {\n\t\t\t\t\tpanic(err)\n\t\t\t\t}\n\n\t\t\t\tbuf[i] = b\n\t\t\t}\n\t\t} else if _, err := io.ReadFull(rand.Reader, buf[:]); err != nil {\n\t\t\tpanic(err)\n\t\t}\n", [],
    "Random reads byte by byte when the source is an io.ByteReader, checking every error: in spec; exercises the ByteReader shape of the scripted device and its deferred errors")
mut("c18_random_bytereader_last_error_only", "scalar.go", "\t\t_, err := io.ReadFull(rand.Reader, buf[:])\n\t\tif err != nil {\n\t\t\tpanic(err)\n\t\t}\n", "\t\tif br, ok := rand.Reader.(io.ByteReader); ok {\n\t\t\tvar err error\n\n\t\t\tfor i := range buf {\n\t\t\t\tbuf[i], err = br.ReadByte()\n\t\t\t}\n\n\t\t\tif err != nil {\n\t\t\t\tpanic(err)\n\t\t\t}\n\t\t} else if _, err := io.ReadFull(rand.Reader, buf[:]); err != nil {\n\t\t\tpanic(err)\n\t\t}\n", ["C18"],
    "the same fast path checking only the last error")
mut("eq_element_larger_than_a_page", "element.go", "type Element struct {\n\t_       disallowEqual\n", "type Element struct {\n\t_       disallowEqual\n\tpad     [5000]byte\n", [],
    "Element carries 5000 bytes of never-written padding: larger than a guarded page, so variables and the shared pool stay on the heap")
mut("c16only_random_prefetch_two_blocks", "scalar.go", "\t\t_, err := io.ReadFull(rand.Reader, buf[:])\n\t\tif err != nil {\n\t\t\tpanic(err)\n\t\t}\n", "\t\tnextEntropyBlock(&buf)\n", ["C16"],
    "Random draws 64 bytes at a time into a mutex-protected package buffer and hands out 32-byte blocks in order, dropping everything on failure: in spec for C18 (each delivered block used once, in order), but it is mutable package state (C16)",
    extra=[("scalar.go", "// Random sets the current Scalar to a new random Scalar and returns it.", "var entropyBuf struct {\n\tsync.Mutex\n\tbuf  [64]byte\n\thave int\n\toff  int\n}\n\nfunc nextEntropyBlock(out *[32]byte) {\n\tentropyBuf.Lock()\n\tdefer entropyBuf.Unlock()\n\n\tif entropyBuf.have-entropyBuf.off < 32 {\n\t\tentropyBuf.have, entropyBuf.off = 0, 0\n\n\t\tif _, err := io.ReadFull(rand.Reader, entropyBuf.buf[:]); err != nil {\n\t\t\tpanic(err)\n\t\t}\n\n\t\tentropyBuf.have = 64\n\t}\n\n\tcopy(out[:], entropyBuf.buf[entropyBuf.off:entropyBuf.off+32])\n\tentropyBuf.off += 32\n}\n\n// Random sets the current Scalar to a new random Scalar and returns it.", 1),
           ("scalar.go", "\t\"math/bits\"\n", "\t\"math/bits\"\n\t\"sync\"\n", 1)])


def sh(cmd, **kw):
    return subprocess.run(cmd, shell=isinstance(cmd, str), capture_output=True, text=True, env=kw.pop("env", ENV), **kw)

def make_tree(m, root):
    wt = os.path.join(root, m["name"])
    r = sh(["git", "-C", REPO, "worktree", "add", "--detach", "-f", wt, "HEAD"])
    if r.returncode:
        raise SystemExit("worktree: " + r.stderr)
    for (f, old, new, count) in m["edits"]:
        p = os.path.join(wt, f)
        s = open(p).read()
        if s.count(old) != count:
            return wt, "edit does not apply (%d matches for %r in %s)" % (s.count(old), old[:50], f)
        open(p, "w").write(s.replace(old, new))
    r = sh("gofmt -l . ; go build ./... 2>&1", cwd=wt)
    if r.returncode:
        return wt, "does not compile:\n" + r.stdout + r.stderr
    return wt, None

def drop_tree(wt):
    sh(["git", "-C", REPO, "worktree", "remove", "--force", wt])
    shutil.rmtree(wt, ignore_errors=True)
    sh(["git", "-C", REPO, "worktree", "prune"])

def main():
    ap = argparse.ArgumentParser()
    ap.add_argument("-b", "--budget", default="10s")
    ap.add_argument("-k", "--match", default="")
    ap.add_argument("--save", action="store_true", help="write mutants/<name>.diff")
    ap.add_argument("--all-props", action="store_true", help="also run the properties that are expected to stay silent")
    ap.add_argument("--seed", default="1")
    ap.add_argument("--diffs-only", action="store_true", help="only (re)write mutants/<name>.diff; run nothing")
    a = ap.parse_args()
    if a.diffs_only:
        a.save = True
    root = tempfile.mkdtemp(prefix="verif-mut-")
    out = tempfile.mkdtemp(prefix="verif-mut-out-")
    rows, bad = [], 0
    try:
        for m in M:
            if a.match and not re.search(a.match, m["name"]):
                continue
            t0 = time.time()
            wt, err = make_tree(m, root)
            try:
                if err:
                    rows.append((m["name"], "INVALID", err)); bad += 1
                    continue
                if a.save:
                    d = sh(["git", "-C", wt, "diff"]).stdout
                    os.makedirs(os.path.join(VERIF, "mutants"), exist_ok=True)
                    with open(os.path.join(VERIF, "mutants", m["name"] + ".diff"), "w") as f:
                        f.write("# %s\n# expect: %s\n" % (m["note"], " ".join(sorted(m["expect"])) or "none (equivalent for the claimed properties)"))
                        f.write(d)
                if a.diffs_only:
                    rows.append((m["name"], "saved", ""))
                    continue
                t = sh("go test -vet=off -count=1 ./... 2>&1 | tail -5", cwd=wt)
                if "FAIL" in t.stdout or t.returncode:
                    rows.append((m["name"], "KILLED-BY-TESTS", t.stdout.strip().splitlines()[-1] if t.stdout.strip() else ""))
                    continue
                props = CLAIMED if (a.all_props or not m["expect"]) else sorted(m["expect"])
                res = {}
                for p in props:
                    env = dict(ENV, VERIF_REPO=wt, VERIF_OUT=out, VERIF_BUDGET=a.budget, VERIF_SEED=a.seed)
                    r = sh([os.path.join(VERIF, "check"), p, "quick"], env=env)
                    viol = [l for l in r.stdout.splitlines() if l.startswith("VIOLATION")]
                    first = ""
                    for l in r.stdout.splitlines():
                        if l.startswith(p + " M-"):
                            first = l[:160]; break
                    res[p] = (r.returncode, len(viol), first, r.stderr[-300:] if r.returncode == 2 else "")
                verdict, detail = "ok", []
                for p, (rc, nv, first, errtxt) in res.items():
                    want = p in m["expect"]
                    if rc == 2:
                        verdict = "HARNESS-ERROR"; detail.append("%s: exit 2 %s" % (p, errtxt))
                    elif want and rc != 1:
                        verdict = "MISSED"; detail.append("%s: not detected" % p)
                    elif not want and rc != 0 and p in m["allow"]:
                        detail.append("%s: reported (tolerated, see note) %s" % (p, first[:80]))
                    elif not want and rc != 0:
                        verdict = "FALSE-ALARM"; detail.append("%s: %s" % (p, first))
                    else:
                        detail.append("%s: %s" % (p, "detected " + first if want else "silent"))
                if verdict != "ok":
                    bad += 1
                rows.append((m["name"], verdict, "; ".join(detail) + " [%.0fs]" % (time.time() - t0)))
            finally:
                drop_tree(wt)
                if rows:
                    print("%-48s %-16s %s" % rows[-1], flush=True)
    finally:
        shutil.rmtree(root, ignore_errors=True)
        shutil.rmtree(out, ignore_errors=True)
        sh(["git", "-C", REPO, "worktree", "prune"])
    print("\n%d mutants, %d not as expected" % (len(rows), bad))
    sys.exit(1 if bad else 0)

if __name__ == "__main__":
    main()
