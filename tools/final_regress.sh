#!/bin/sh
# Final regression on the current tree: every hand-made mutant against all four
# checks; every seeded/adversarial change against the check of the property it
# breaks; every behaviour-preserving refactor against all four checks.
HERE=$(cd "$(dirname "$0")/.." && pwd)
cd "$HERE" || exit 2
python3 tools/mutants.py -b 8s --all-props
for d in seeded/s* seeded/a*; do
	id=$(basename "$d")
	t=$(python3 -c "import json,sys; print(json.load(open('$d/meta.json'))['breaks_property'])")
	python3 tools/seeded.py run -b 12s --props "$t" "$id" | head -1
done
python3 tools/seeded.py run -b 10s $(ls seeded | grep "^h")
