#!/usr/bin/env python3
"""Automatic small-mutation sweep (sensitivity harness, not a check).

  tools/automut.py filter  [--jobs 12]                 phase A: which mutants compile and pass the repository's tests
  tools/automut.py run     [--budget 5s] [--limit N]   phase B: the four checks against every survivor
  tools/automut.py report                              table of phase B

The mutation points come from sim/cmd/automut (operator swaps, literal tweaks,
negated conditions, deleted statements; every function of every non-test file).
State is kept in /verif/automut/ (survivors.json, results.json). Every scratch
worktree lives under /tmp and is removed; /repo itself is never modified.
"""
import argparse, json, os, shutil, subprocess, sys, tempfile, time
from concurrent.futures import ThreadPoolExecutor

REPO = "/repo"
VERIF = os.path.dirname(os.path.dirname(os.path.abspath(__file__)))
STATE = os.path.join(VERIF, "automut")
ENV = dict(os.environ, GOFLAGS="-mod=mod", GOPROXY="off", GOSUMDB="off", GOTOOLCHAIN="local")
PROPS = ["C10", "C15", "C16", "C18"]


def sh(cmd, **kw):
    env = kw.pop("env", ENV)
    return subprocess.run(cmd, shell=isinstance(cmd, str), capture_output=True, text=True, env=env, **kw)


def worktree():
    d = tempfile.mkdtemp(prefix="verif-automut-")
    os.rmdir(d)
    r = sh(["git", "-C", REPO, "worktree", "add", "--detach", "-f", d, "HEAD"])
    if r.returncode:
        raise SystemExit(r.stderr)
    return d


def drop(d):
    sh(["git", "-C", REPO, "worktree", "remove", "--force", d])
    shutil.rmtree(d, ignore_errors=True)
    sh(["git", "-C", REPO, "worktree", "prune"])


def mutation_list():
    tmp = tempfile.mkdtemp(prefix="verif-automut-bin-")
    try:
        r = sh(["go", "build", "-o", os.path.join(tmp, "automut"), "./cmd/automut"], cwd=os.path.join(VERIF, "sim"))
        if r.returncode:
            raise SystemExit(r.stderr)
        r = sh([os.path.join(tmp, "automut"), "-repo", REPO])
        return json.loads(r.stdout)
    finally:
        shutil.rmtree(tmp, ignore_errors=True)


def apply(wt, m):
    p = os.path.join(wt, m["file"])
    src = open(p, "rb").read()
    out = src[:m["off"]] + m["text"].encode() + src[m["off"] + m["del"]:]
    open(p, "wb").write(out)
    return src


def cmd_filter(a):
    muts = mutation_list()
    os.makedirs(STATE, exist_ok=True)
    wts = [worktree() for _ in range(a.jobs)]
    free = list(wts)
    res = {}

    def one(m):
        wt = free.pop()
        try:
            orig = apply(wt, m)
            try:
                r = subprocess.run("go build ./... && go test -vet=off -count=1 -timeout 60s ./...", shell=True, cwd=wt, env=ENV,
                                   capture_output=True, text=True, timeout=180)
                ok = r.returncode == 0
                why = "" if ok else ("build" if "FAIL" not in r.stdout and "ok " not in r.stdout else "tests")
            except subprocess.TimeoutExpired:
                ok, why = False, "timeout"
            open(os.path.join(wt, m["file"]), "wb").write(orig)
            return m["id"], ok, why
        finally:
            free.append(wt)

    t0 = time.time()
    try:
        with ThreadPoolExecutor(max_workers=a.jobs) as ex:
            for i, (mid, ok, why) in enumerate(ex.map(one, muts)):
                res[mid] = (ok, why)
                if i % 200 == 0:
                    print("filter: %d/%d (%.0fs)" % (i, len(muts), time.time() - t0), flush=True)
    finally:
        for w in wts:
            drop(w)
    surv = [m for m in muts if res[m["id"]][0]]
    kinds = {}
    for m in muts:
        k = "survive" if res[m["id"]][0] else res[m["id"]][1]
        kinds[k] = kinds.get(k, 0) + 1
    json.dump({"base_commit": sh(["git", "-C", REPO, "rev-parse", "--short", "HEAD"]).stdout.strip(), "total": len(muts), "outcome": kinds,
               "survivors": surv}, open(os.path.join(STATE, "survivors.json"), "w"), indent=1)
    print("filter: %d mutants: %s" % (len(muts), kinds))


def cmd_run(a):
    st = json.load(open(os.path.join(STATE, "survivors.json")))
    rp = os.path.join(STATE, "results.json")
    results = json.load(open(rp)) if os.path.exists(rp) else {}
    todo = [m for m in st["survivors"] if str(m["id"]) not in results]
    if a.only:
        todo = [m for m in todo if a.only in m["file"]]
    if a.limit:
        todo = todo[:a.limit]
    wt = worktree()
    bins = tempfile.mkdtemp(prefix="verif-automut-bins-")
    out = tempfile.mkdtemp(prefix="verif-automut-out-")
    try:
        for n, m in enumerate(todo):
            orig = apply(wt, m)
            t0 = time.time()
            shutil.rmtree(bins, ignore_errors=True)
            r = sh([os.path.join(VERIF, "check"), "build", bins, "plain", "entry"], env=dict(ENV, VERIF_REPO=wt))
            rec = {"file": m["file"], "line": m["line"], "func": m["func"], "desc": m["desc"], "checks": {}}
            if r.returncode:
                rec["build_error"] = r.stderr[-300:]
            else:
                for p in PROPS:
                    env = dict(ENV, VERIF_REPO=wt, VERIF_OUT=out, VERIF_PREBUILT=bins, VERIF_BUDGET=a.budget, VERIF_SEED="1")
                    r = sh([os.path.join(VERIF, "check"), p, "quick"], env=env)
                    first = ""
                    for l in r.stdout.splitlines():
                        if l.startswith(p + " M-"):
                            first = l[:220]
                            break
                    rec["checks"][p] = {"exit": r.returncode, "first": first, "stderr": r.stderr[-200:] if r.returncode == 2 else ""}
            rec["wall_s"] = round(time.time() - t0, 1)
            open(os.path.join(wt, m["file"]), "wb").write(orig)
            results[str(m["id"])] = rec
            json.dump(results, open(rp, "w"), indent=1)
            det = [p for p, c in rec["checks"].items() if c["exit"] == 1]
            err = [p for p, c in rec["checks"].items() if c["exit"] == 2]
            print("[%d/%d] #%d %s:%d %s (%s): detected by %s%s [%.0fs]" % (n + 1, len(todo), m["id"], m["file"], m["line"], m["desc"], m["func"],
                                                                      ",".join(det) or "-", (" HARNESS-ERROR " + ",".join(err)) if err else "", rec["wall_s"]), flush=True)
    finally:
        drop(wt)
        shutil.rmtree(bins, ignore_errors=True)
        shutil.rmtree(out, ignore_errors=True)


def cmd_report(a):
    st = json.load(open(os.path.join(STATE, "survivors.json")))
    results = json.load(open(os.path.join(STATE, "results.json")))
    print("mutants: %d, outcome of the repository's own tests: %s" % (st["total"], st["outcome"]))
    det = {p: 0 for p in PROPS}
    none, err = [], []
    for k, r in sorted(results.items(), key=lambda kv: int(kv[0])):
        d = [p for p, c in r["checks"].items() if c["exit"] == 1]
        for p in d:
            det[p] += 1
        if any(c["exit"] == 2 for c in r["checks"].values()) or "build_error" in r:
            err.append((k, r))
        if not d:
            none.append((k, r))
    print("survivors run: %d; reported by: %s; reported by no check: %d; harness errors: %d" % (len(results), det, len(none), len(err)))
    for k, r in none:
        print("  silent #%s %s:%d %s in %s" % (k, r["file"], r["line"], r["desc"], r["func"]))
    for k, r in err:
        print("  error  #%s %s:%d %s: %s" % (k, r["file"], r["line"], r["desc"], r.get("build_error") or {p: c["stderr"] for p, c in r["checks"].items() if c["exit"] == 2}))


def main():
    ap = argparse.ArgumentParser()
    sub = ap.add_subparsers(dest="cmd", required=True)
    f = sub.add_parser("filter"); f.add_argument("--jobs", type=int, default=12)
    r = sub.add_parser("run"); r.add_argument("--budget", default="5s"); r.add_argument("--limit", type=int, default=0); r.add_argument("--only", default="")
    sub.add_parser("report")
    a = ap.parse_args()
    {"filter": cmd_filter, "run": cmd_run, "report": cmd_report}[a.cmd](a)


if __name__ == "__main__":
    main()
