#!/usr/bin/env python3
"""Import, confirm and evaluate seeded property-breaking changes.

  tools/seeded.py import <srcdir> <id> <property>    copy patch/demo/notes from a sub-agent's worktree into /verif/seeded/<id>/
  tools/seeded.py confirm <id>...                    fresh scratch worktree: suite passes with the patch, demo fails with it, passes without
  tools/seeded.py run [-b 20s] [--props C10,C16] <id>...   run the checks against a scratch worktree with the patch applied
  (ids default to all of /verif/seeded/*)

Nothing is ever applied to /repo itself; every worktree is removed afterwards.
"""
import argparse, glob, json, os, shutil, subprocess, sys, tempfile, time

REPO = "/repo"
VERIF = os.path.dirname(os.path.dirname(os.path.abspath(__file__)))
SEEDED = os.path.join(VERIF, "seeded")
ENV = dict(os.environ, GOFLAGS="-mod=mod", GOPROXY="off", GOSUMDB="off", GOTOOLCHAIN="local")
CLAIMED = ["C10", "C15", "C16", "C18"]


def sh(cmd, **kw):
    env = kw.pop("env", ENV)
    return subprocess.run(cmd, shell=isinstance(cmd, str), capture_output=True, text=True, env=env, **kw)


def worktree():
    d = tempfile.mkdtemp(prefix="verif-seed-")
    os.rmdir(d)
    r = sh(["git", "-C", REPO, "worktree", "add", "--detach", "-f", d, "HEAD"])
    if r.returncode:
        raise SystemExit(r.stderr)
    return d


def drop(d):
    sh(["git", "-C", REPO, "worktree", "remove", "--force", d])
    shutil.rmtree(d, ignore_errors=True)
    sh(["git", "-C", REPO, "worktree", "prune"])


def meta_path(i):
    return os.path.join(SEEDED, i, "meta.json")


def load_meta(i):
    return json.load(open(meta_path(i)))


def save_meta(i, m):
    json.dump(m, open(meta_path(i), "w"), indent=1)
    open(meta_path(i), "a").write("\n")


def cmd_import_holds(a):
    """a behaviour-preserving refactor: patch only, every check must stay silent"""
    dst = os.path.join(SEEDED, a.id)
    os.makedirs(dst, exist_ok=True)
    shutil.copy(a.patch, os.path.join(dst, "patch.diff"))
    if a.notes and os.path.exists(a.notes):
        shutil.copy(a.notes, os.path.join(dst, "notes.md"))
    m = {"id": a.id, "kind": "holds", "keeps_property": a.property, "breaks_property": None,
         "origin": "independent sub-agent asked for a substantial behaviour-preserving refactor under which the property still holds",
         "what": a.what or ""}
    save_meta(a.id, m)
    print("imported", a.id)


def cmd_import(a):
    dst = os.path.join(SEEDED, a.id)
    os.makedirs(dst, exist_ok=True)
    shutil.copy(os.path.join(a.src, "seed_patch.diff"), os.path.join(dst, "patch.diff"))
    if os.path.exists(os.path.join(dst, "demo")):
        shutil.rmtree(os.path.join(dst, "demo"))
    shutil.copytree(os.path.join(a.src, "seed_demo"), os.path.join(dst, "demo"))
    notes = os.path.join(a.src, "seed_notes.md")
    if os.path.exists(notes):
        shutil.copy(notes, os.path.join(dst, "notes.md"))
    m = {"id": a.id, "breaks_property": a.property, "origin": "independent sub-agent given only the property text and a scratch worktree",
         "needs_to_manifest": a.needs or "", "demo_cmd": a.demo_cmd or "go test -count=1 ./seed_demo/"}
    save_meta(a.id, m)
    print("imported", a.id)


def confirm_one(i):
    m = load_meta(i)
    d = worktree()
    try:
        p = os.path.join(SEEDED, i, "patch.diff")
        r = sh(["git", "-C", d, "apply", p])
        if r.returncode:
            return False, "patch does not apply: " + r.stderr
        if m.get("kind") == "holds":
            r = sh("go build ./... && go vet . 2>&1 | tail -3; go test -vet=off -count=1 ./... 2>&1 | tail -6", cwd=d)
            ok = "FAIL" not in r.stdout and "ok" in r.stdout
            m["confirmed"] = {"suite_passes_with_patch": ok, "commands": ["git apply patch.diff", "go test -vet=off -count=1 ./..."],
                              "base_commit": sh(["git", "-C", REPO, "rev-parse", "--short", "HEAD"]).stdout.strip()}
            save_meta(i, m)
            return ok, "suite_ok=%s (behaviour-preserving refactor: no demonstration)" % ok
        r = sh("go build ./... && go test -vet=off -count=1 ./... 2>&1 | tail -6", cwd=d)
        suite_ok = r.returncode == 0 and "FAIL" not in r.stdout and "ok" in r.stdout
        shutil.copytree(os.path.join(SEEDED, i, "demo"), os.path.join(d, "seed_demo"))
        demo = m.get("demo_cmd", "go test -count=1 ./seed_demo/")
        env = dict(ENV, DEMO_SECONDS="20")
        r1 = sh(demo + " 2>&1 | tail -15", cwd=d, env=env)
        with_fail = "FAIL" in r1.stdout
        sh(["git", "-C", d, "apply", "-R", p])
        r2 = sh(demo + " 2>&1 | tail -15", cwd=d, env=env)
        without_ok = "FAIL" not in r2.stdout and "ok" in r2.stdout
        ok = suite_ok and with_fail and without_ok
        m["confirmed"] = {"suite_passes_with_patch": suite_ok, "demo_fails_with_patch": with_fail, "demo_passes_without_patch": without_ok,
                          "commands": ["git apply patch.diff", "go test -vet=off -count=1 ./...", demo, "git apply -R patch.diff", demo],
                          "base_commit": sh(["git", "-C", REPO, "rev-parse", "--short", "HEAD"]).stdout.strip()}
        save_meta(i, m)
        return ok, "suite_ok=%s demo_fails_with=%s demo_passes_without=%s" % (suite_ok, with_fail, without_ok)
    finally:
        drop(d)


def run_one(i, props, budget, seed):
    m = load_meta(i)
    d = worktree()
    out = tempfile.mkdtemp(prefix="verif-seed-out-")
    res = {}
    try:
        r = sh(["git", "-C", d, "apply", os.path.join(SEEDED, i, "patch.diff")])
        if r.returncode:
            return {"error": r.stderr}
        for p in props:
            t0 = time.time()
            env = dict(ENV, VERIF_REPO=d, VERIF_OUT=out, VERIF_BUDGET=budget, VERIF_SEED=str(seed))
            r = sh([os.path.join(VERIF, "check"), p, "quick"], env=env)
            first = ""
            for l in r.stdout.splitlines():
                if l.startswith(p + " M-"):
                    first = l[:260]
                    break
            res[p] = {"exit": r.returncode, "first": first, "wall_s": round(time.time() - t0, 1),
                      "stderr": r.stderr[-300:] if r.returncode == 2 else ""}
        return res
    finally:
        drop(d)
        shutil.rmtree(out, ignore_errors=True)


def main():
    ap = argparse.ArgumentParser()
    sub = ap.add_subparsers(dest="cmd", required=True)
    pi = sub.add_parser("import")
    pi.add_argument("src"); pi.add_argument("id"); pi.add_argument("property")
    pi.add_argument("--needs"); pi.add_argument("--demo-cmd")
    ph = sub.add_parser("import-holds")
    ph.add_argument("patch"); ph.add_argument("id"); ph.add_argument("property")
    ph.add_argument("--notes"); ph.add_argument("--what")
    pc = sub.add_parser("confirm"); pc.add_argument("ids", nargs="*")
    pr = sub.add_parser("run"); pr.add_argument("ids", nargs="*")
    pr.add_argument("-b", "--budget", default="20s"); pr.add_argument("--props", default=""); pr.add_argument("--seed", default="1")
    pr.add_argument("--record", action="store_true", help="store the outcome in meta.json")
    a = ap.parse_args()
    if a.cmd == "import":
        return cmd_import(a)
    if a.cmd == "import-holds":
        return cmd_import_holds(a)
    ids = a.ids or sorted(os.path.basename(os.path.dirname(p)) for p in glob.glob(os.path.join(SEEDED, "*", "meta.json")))
    bad = 0
    for i in ids:
        if a.cmd == "confirm":
            ok, msg = confirm_one(i)
            print("%-8s %s %s" % (i, "CONFIRMED" if ok else "NOT-CONFIRMED", msg), flush=True)
            bad += 0 if ok else 1
        else:
            m = load_meta(i)
            props = a.props.split(",") if a.props else CLAIMED
            res = run_one(i, props, a.budget, a.seed)
            target = m["breaks_property"]
            holds = m.get("kind") == "holds"
            line = []
            for p, r in res.items():
                if not isinstance(r, dict):
                    line.append("%s" % r); continue
                tag = {0: "silent", 1: "DETECTED", 2: "HARNESS-ERROR"}.get(r["exit"], "?")
                line.append("%s:%s(%.0fs)" % (p, tag, r["wall_s"]))
            caught = isinstance(res.get(target), dict) and res[target]["exit"] == 1
            if holds:
                # the refactor was written to keep ONE property; the check of that
                # property must stay silent. Reports by other checks are listed and
                # judged by hand (e.g. a sync.Pool is mutable package state for C16).
                kept = m.get("keeps_property")
                quiet = isinstance(res.get(kept), dict) and res[kept]["exit"] == 0
                others = [p for p, r in res.items() if p != kept and isinstance(r, dict) and r["exit"] != 0]
                caught = quiet
                tag = "SILENT" if quiet else "FALSE-ALARM"
                if quiet and others:
                    tag = "SILENT(but reported by %s)" % ",".join(others)
                print("%-8s holds(%s) %s  %s" % (i, kept, tag, " ".join(line)), flush=True)
            else:
                print("%-8s target=%s %s  %s" % (i, target, "CAUGHT" if caught else "MISSED", " ".join(line)), flush=True)
            for p, r in res.items():
                if isinstance(r, dict) and r["exit"] == 1:
                    print("         %s" % r["first"])
                if isinstance(r, dict) and r["exit"] == 2:
                    print("         %s stderr: %s" % (p, r["stderr"]))
            if a.record:
                m["checks"] = {"budget": a.budget, "seed": a.seed, "results": res, ("all_checks_silent" if holds else "caught_by_target_check"): caught,
                               "detected_by": [p for p, r in res.items() if isinstance(r, dict) and r["exit"] == 1]}
                save_meta(i, m)
            bad += 0 if caught else 1
    sys.exit(1 if bad else 0)


if __name__ == "__main__":
    main()
