#!/usr/bin/env python3
"""Determinism self-test: the same (VERIF_SEED, run index) must give the same
programme, the same schedule and the same trace in every process, whatever
GOMAXPROCS is. For every configuration, N runs are executed in 6 processes
(GOMAXPROCS 1, 4, 16, twice each) and the per-run hash lines
(index:programme:trace:schedule:steps) are compared. Exit 0 ok, 2 otherwise."""
import json, os, subprocess, sys
from concurrent.futures import ThreadPoolExecutor

work, n, seed = sys.argv[1], int(sys.argv[2]), sys.argv[3]
configs = [
    ("C10", "plain", "gs-plain", None),
    ("C15", "plain", "gs-plain", None),
    ("C18", "plain", "gs-plain", None),
    ("C16", "yield-entry", "gs-entry", "entry/sites.json"),
    ("C18", "yield-entry", "gs-entry", "entry/sites.json"),
    ("C16", "yield-full", "gs-full", "full/sites.json"),
]

def one(cfg, procs, rep):
    prop, build, binary, sites = cfg
    runs = n if build != "yield-full" else max(10, n // 10)
    cmd = [os.path.join(work, binary), "worker", "-prop", prop, "-seed", seed, "-from", "0", "-stride", "1",
           "-max-runs", str(runs), "-budget", "600s", "-build", build, "-hashes"]
    if sites:
        cmd += ["-sites", os.path.join(work, sites)]
    env = dict(os.environ, GOMAXPROCS=str(procs))
    r = subprocess.run(cmd, capture_output=True, text=True, env=env)
    if r.returncode != 0:
        return (cfg, procs, rep, None, r.stderr[-400:])
    d = json.loads(r.stdout)
    if d.get("violation"):
        return (cfg, procs, rep, None, "violation during determinism test: %s" % d["violation"])
    return (cfg, procs, rep, d["hashes"], "")

jobs = [(c, p, rep) for c in configs for p in (1, 4, 16) for rep in (0, 1)]
bad = 0
with ThreadPoolExecutor(max_workers=8) as ex:
    res = list(ex.map(lambda j: one(*j), jobs))
by = {}
for cfg, procs, rep, hashes, err in res:
    if hashes is None:
        print("selftest determinism: %s/%s GOMAXPROCS=%d: worker failed: %s" % (cfg[0], cfg[1], procs, err))
        bad += 1
        continue
    by.setdefault(cfg, []).append((procs, rep, hashes))
for cfg, lst in by.items():
    ref = lst[0][2]
    ok = True
    for procs, rep, h in lst[1:]:
        if h != ref:
            ok = False
            k = next((i for i, (a, b) in enumerate(zip(ref, h)) if a != b), min(len(ref), len(h)))
            print("selftest determinism: %s/%s diverges at run #%d under GOMAXPROCS=%d rep %d: %s vs %s" % (cfg[0], cfg[1], k, procs, rep, ref[k] if k < len(ref) else None, h[k] if k < len(h) else None))
    if ok:
        print("selftest determinism: %s/%s: %d runs identical in %d processes (GOMAXPROCS 1,4,16 x2)" % (cfg[0], cfg[1], len(ref), len(lst)))
    else:
        bad += 1
sys.exit(2 if bad else 0)
