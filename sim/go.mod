module verifsim

go 1.22.2

require github.com/bytemare/secp256k1 v0.0.0

replace github.com/bytemare/secp256k1 => /repo
