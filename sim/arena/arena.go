// Package arena is the simulated caller memory: an mmap'ed region that the
// simulator write-protects while the library runs. Every backing array gets
// its own slot (data pages followed by a PROT_NONE guard page) and is placed
// flush against the guard, so that a store anywhere in it traps while it is
// protected and a load past its end traps always.
package arena

import (
	"fmt"
	"syscall"
	"unsafe"
)

const page = 4096

// Slot geometry: dataPages data pages then one guard page.
const dataPages = 2

const slotBytes = (dataPages + 1) * page

// MaxBacking is the largest backing array a slot can hold.
const MaxBacking = dataPages * page

// Arena is a set of slots.
type Arena struct {
	mem       []byte
	slots     int
	used      int
	sizes     []int
	protected bool
	// counters
	Protects uint64
}

// New maps an arena with the given number of slots. All pages start PROT_NONE.
func New(slots int) (*Arena, error) {
	mem, err := syscall.Mmap(-1, 0, slots*slotBytes, syscall.PROT_NONE, syscall.MAP_ANON|syscall.MAP_PRIVATE)
	if err != nil {
		return nil, fmt.Errorf("arena: mmap: %w", err)
	}
	return &Arena{mem: mem, slots: slots}, nil
}

func (a *Arena) base() uintptr { return uintptr(unsafe.Pointer(&a.mem[0])) }

func (a *Arena) dataRegion(i int) []byte {
	return a.mem[i*slotBytes : i*slotBytes+dataPages*page]
}

func mprotect(b []byte, prot int) {
	if err := syscall.Mprotect(b, prot); err != nil {
		panic(fmt.Sprintf("arena: mprotect: %v", err))
	}
}

// Reset releases all backings. Data pages of used slots go back to PROT_NONE.
func (a *Arena) Reset() {
	for i := 0; i < a.used; i++ {
		d := a.dataRegion(i)
		mprotect(d, syscall.PROT_READ|syscall.PROT_WRITE)
		for j := range d {
			d[j] = 0
		}
		mprotect(d, syscall.PROT_NONE)
	}
	a.used = 0
	a.sizes = a.sizes[:0]
	a.protected = false
}

// Alloc creates a writable backing array of the given size (> 0 allowed to be
// 0) and returns its index and memory. Must be called while unprotected.
func (a *Arena) Alloc(size int) (int, []byte, error) {
	if a.protected {
		return 0, nil, fmt.Errorf("arena: Alloc while protected")
	}
	if size > MaxBacking {
		return 0, nil, fmt.Errorf("arena: backing of %d bytes too large", size)
	}
	if a.used == a.slots {
		return 0, nil, fmt.Errorf("arena: out of slots")
	}
	i := a.used
	a.used++
	a.sizes = append(a.sizes, size)
	mprotect(a.dataRegion(i), syscall.PROT_READ|syscall.PROT_WRITE)
	return i, a.Backing(i), nil
}

// Backing returns backing i (cap == len == size, ending at the guard page).
func (a *Arena) Backing(i int) []byte {
	d := a.dataRegion(i)
	sz := a.sizes[i]
	return d[len(d)-sz : len(d) : len(d)]
}

// Protect makes every backing read-only.
func (a *Arena) Protect() {
	for i := 0; i < a.used; i++ {
		mprotect(a.dataRegion(i), syscall.PROT_READ)
	}
	a.protected = true
	a.Protects++
}

// Unprotect makes every backing writable again.
func (a *Arena) Unprotect() {
	for i := 0; i < a.used; i++ {
		mprotect(a.dataRegion(i), syscall.PROT_READ|syscall.PROT_WRITE)
	}
	a.protected = false
}

// Protected reports the current state.
func (a *Arena) Protected() bool { return a.protected }

// Contains reports whether addr lies inside the mapped region.
func (a *Arena) Contains(addr uintptr) bool {
	return addr >= a.base() && addr < a.base()+uintptr(len(a.mem))
}

// Range returns the mapped address range.
func (a *Arena) Range() (lo, hi uintptr) { return a.base(), a.base() + uintptr(len(a.mem)) }

// Locate maps an address to (backing, offset). off may be negative (before the
// backing, inside the slot's unused data area) or >= size (guard page).
func (a *Arena) Locate(addr uintptr) (backing, off int, ok bool) {
	if !a.Contains(addr) {
		return 0, 0, false
	}
	rel := int(addr - a.base())
	i := rel / slotBytes
	if i >= a.used {
		return i, 0, false
	}
	start := i*slotBytes + dataPages*page - a.sizes[i]
	return i, rel - start, true
}

// Used returns the number of backings.
func (a *Arena) Used() int { return a.used }

// Vars is a second guarded region with one page per caller variable and no
// guard pages: the simulator keeps the element and scalar variables of a task
// here so that, during a call, only the receiver's page is writable and a store
// to any other variable (a pointer argument, or a bystander) traps.
type Vars struct {
	mem []byte
	n   int
	// counters
	Calls uint64
}

// NewVars maps n variable pages (read-write).
func NewVars(n int) (*Vars, error) {
	mem, err := syscall.Mmap(-1, 0, n*page, syscall.PROT_READ|syscall.PROT_WRITE, syscall.MAP_ANON|syscall.MAP_PRIVATE)
	if err != nil {
		return nil, fmt.Errorf("arena: mmap: %w", err)
	}
	return &Vars{mem: mem, n: n}, nil
}

// N returns the number of pages.
func (v *Vars) N() int { return v.n }

// Slot returns page i.
func (v *Vars) Slot(i int) []byte { return v.mem[i*page : (i+1)*page : (i+1)*page] }

// SetAll sets the protection of the first k pages.
func (v *Vars) SetAll(k int, writable bool) {
	prot := syscall.PROT_READ
	if writable {
		prot |= syscall.PROT_WRITE
	}
	if k > 0 {
		mprotect(v.mem[:k*page], prot)
	}
	v.Calls++
}

// SetOne sets the protection of page i.
func (v *Vars) SetOne(i int, writable bool) {
	prot := syscall.PROT_READ
	if writable {
		prot |= syscall.PROT_WRITE
	}
	mprotect(v.Slot(i), prot)
	v.Calls++
}

// Contains reports whether addr lies in the region.
func (v *Vars) Contains(addr uintptr) bool {
	b := uintptr(unsafe.Pointer(&v.mem[0]))
	return addr >= b && addr < b+uintptr(len(v.mem))
}

// Locate returns the page index and offset of addr.
func (v *Vars) Locate(addr uintptr) (slot, off int) {
	rel := int(addr - uintptr(unsafe.Pointer(&v.mem[0])))
	return rel / page, rel % page
}
