// Command instrument prepares a `go build -overlay` description for the
// repository under test. Nothing is written under the repository; every
// generated file lives in -out and is mapped onto a virtual path inside the
// repository by overlay.json.
//
// It generates, from the AST of the *current* working tree:
//
//   - <repo>/internal/simrt/simrt.go      yield hook + globals registry (new package)
//   - <pkg>/zz_verif_globals.go           per package: registers the address of every
//     package-level variable (so that "no mutable global state" is checked against
//     whatever variables the tree has today, not a hand-kept list)
//   - <repo>/zz_verif_accessor.go         root package: exported Verif* entry points
//   - in -mode yield-*: replacement files with simrt.Yield(site) inserted at
//     function entries and (hand-written files, or all files in yield-full) before
//     every statement; `go` statements are routed through simrt.Go.
//
// Exit status: 0 ok, 2 anything else (never 1: this tool decides no property).
package main

import (
	"bytes"
	"encoding/json"
	"flag"
	"fmt"
	"go/ast"
	"go/build"
	"go/parser"
	"go/printer"
	"go/token"
	"os"
	"path/filepath"
	"regexp"
	"sort"
	"strconv"
	"strings"
)

type site struct {
	ID   uint32 `json:"id"`
	File string `json:"file"`
	Line int    `json:"line"`
	Func string `json:"func"`
	Kind string `json:"kind"` // entry | stmt
}

type pkgInfo struct {
	dir     string // absolute
	rel     string // relative to repo root ("." for root)
	name    string
	imp     string
	files   []string
	globals []string
}

var (
	repo    = flag.String("repo", "/repo", "repository root")
	out     = flag.String("out", "", "output directory (must exist)")
	mode    = flag.String("mode", "accessor", "accessor | yield-entry | yield-full")
	modPath string
	fset    = token.NewFileSet()
	sites   []site
	goStmts int
	// mayBlock: the module uses synchronisation primitives, channels or goroutines
	mayBlock bool
)

func die(f string, a ...any) {
	fmt.Fprintf(os.Stderr, "instrument: "+f+"\n", a...)
	os.Exit(2)
}

func main() {
	flag.Parse()
	if *out == "" {
		die("-out required")
	}
	gm, err := os.ReadFile(filepath.Join(*repo, "go.mod"))
	if err != nil {
		die("%v", err)
	}
	m := regexp.MustCompile(`(?m)^module\s+(\S+)`).FindSubmatch(gm)
	if m == nil {
		die("no module line in go.mod")
	}
	modPath = string(m[1])

	pkgs := findPackages()
	overlay := map[string]string{}
	sites = append(sites, site{ID: 0, File: "<none>", Kind: "none"})

	// simrt
	simrtDir := filepath.Join(*repo, "internal", "simrt")
	if _, err := os.Stat(simrtDir); err == nil {
		die("repository already has internal/simrt")
	}
	write(overlay, filepath.Join(simrtDir, "simrt.go"), "simrt.go", simrtSrc)

	var root *pkgInfo
	for _, p := range pkgs {
		if p.rel == "." {
			root = p
		}
	}
	if root == nil {
		die("no root package")
	}

	for i, p := range pkgs {
		parsed := map[string]*ast.File{}
		for _, f := range p.files {
			af, err := parser.ParseFile(fset, filepath.Join(p.dir, f), nil, parser.ParseComments)
			if err != nil {
				die("parse: %v", err)
			}
			parsed[f] = af
			collectGlobals(p, af)
			scanBlocking(af)
		}
		sort.Strings(p.globals)
		// globals registration file
		var b bytes.Buffer
		fmt.Fprintf(&b, "//go:build verif\n\npackage %s\n\nimport simrt %q\n\n", p.name, modPath+"/internal/simrt")
		fmt.Fprintf(&b, "var _ = simrt.Register\n\nfunc init() {\n")
		for _, g := range p.globals {
			fmt.Fprintf(&b, "\tsimrt.Register(%q, &%s)\n", p.imp+"."+g, g)
		}
		fmt.Fprintf(&b, "}\n")
		write(overlay, filepath.Join(p.dir, "zz_verif_globals.go"), fmt.Sprintf("globals_%d.go", i), b.String())

		if strings.HasPrefix(*mode, "yield") {
			for _, f := range p.files {
				af := parsed[f]
				generated := isGenerated(af)
				full := *mode == "yield-full" || !generated
				src := instrumentFile(p, f, af, full)
				write(overlay, filepath.Join(p.dir, f), fmt.Sprintf("y_%d_%s", i, f), src)
			}
		}
	}

	// root accessor
	var b bytes.Buffer
	fmt.Fprintf(&b, "//go:build verif\n\npackage %s\n\nimport simrt %q\n\n", root.name, modPath+"/internal/simrt")
	b.WriteString(accessorSrc)
	write(overlay, filepath.Join(root.dir, "zz_verif_accessor.go"), "accessor.go", b.String())

	oj, _ := json.MarshalIndent(map[string]any{"Replace": overlay}, "", " ")
	if err := os.WriteFile(filepath.Join(*out, "overlay.json"), oj, 0o644); err != nil {
		die("%v", err)
	}
	sj, _ := json.Marshal(map[string]any{"mode": *mode, "sites": sites, "go_stmts": goStmts, "module": modPath, "may_block": mayBlock})
	if err := os.WriteFile(filepath.Join(*out, "sites.json"), sj, 0o644); err != nil {
		die("%v", err)
	}
	nglob := 0
	for _, p := range pkgs {
		nglob += len(p.globals)
	}
	fmt.Printf("instrument: mode=%s packages=%d globals=%d sites=%d go_stmts=%d may_block=%v\n", *mode, len(pkgs), nglob, len(sites)-1, goStmts, mayBlock)
}

func write(overlay map[string]string, virt, name, src string) {
	p := filepath.Join(*out, name)
	if err := os.WriteFile(p, []byte(src), 0o644); err != nil {
		die("%v", err)
	}
	overlay[virt] = p
}

func findPackages() []*pkgInfo {
	var res []*pkgInfo
	ctx := build.Default
	ctx.BuildTags = []string{"verif"}
	ctx.CgoEnabled = false
	filepath.WalkDir(*repo, func(path string, d os.DirEntry, err error) error {
		if err != nil {
			return nil
		}
		if !d.IsDir() {
			return nil
		}
		base := d.Name()
		if path != *repo && (strings.HasPrefix(base, ".") || strings.HasPrefix(base, "_") || base == "testdata" || base == "vendor") {
			return filepath.SkipDir
		}
		bp, err := ctx.ImportDir(path, 0)
		if err != nil || len(bp.GoFiles) == 0 {
			return nil
		}
		if bp.Name == "main" {
			return nil
		}
		rel, _ := filepath.Rel(*repo, path)
		imp := modPath
		if rel != "." {
			imp = modPath + "/" + filepath.ToSlash(rel)
		}
		fs := append([]string(nil), bp.GoFiles...)
		sort.Strings(fs)
		var keep []string
		for _, f := range fs {
			if strings.HasPrefix(f, "zz_verif_") {
				continue
			}
			keep = append(keep, f)
		}
		res = append(res, &pkgInfo{dir: path, rel: rel, name: bp.Name, imp: imp, files: keep})
		return nil
	})
	sort.Slice(res, func(i, j int) bool { return res[i].rel < res[j].rel })
	return res
}

func collectGlobals(p *pkgInfo, f *ast.File) {
	for _, d := range f.Decls {
		gd, ok := d.(*ast.GenDecl)
		if !ok || gd.Tok != token.VAR {
			continue
		}
		for _, s := range gd.Specs {
			vs := s.(*ast.ValueSpec)
			for _, n := range vs.Names {
				if n.Name != "_" {
					p.globals = append(p.globals, n.Name)
				}
			}
		}
	}
}

// scanBlocking notes whether a file could block a goroutine or start one.
func scanBlocking(f *ast.File) {
	for _, im := range f.Imports {
		if p, _ := strconv.Unquote(im.Path.Value); p == "sync" || p == "context" || p == "time" {
			mayBlock = true
		}
	}
	ast.Inspect(f, func(n ast.Node) bool {
		switch t := n.(type) {
		case *ast.GoStmt, *ast.SelectStmt, *ast.SendStmt, *ast.ChanType:
			mayBlock = true
		case *ast.UnaryExpr:
			if t.Op == token.ARROW {
				mayBlock = true
			}
		}
		return true
	})
}

var genRe = regexp.MustCompile(`^// Code generated .* DO NOT EDIT\.$`)

func isGenerated(f *ast.File) bool {
	for _, cg := range f.Comments {
		if cg.Pos() > f.Package {
			break
		}
		for _, c := range cg.List {
			if genRe.MatchString(c.Text) {
				return true
			}
		}
	}
	return false
}

// ---------------------------------------------------------------------------

type instr struct {
	p    *pkgInfo
	file string
	full bool
	fn   string
}

func (in *instr) newSite(pos token.Pos, kind string) uint32 {
	id := uint32(len(sites))
	line := 0
	if pos.IsValid() {
		line = fset.Position(pos).Line
	}
	rel := in.file
	if in.p.rel != "." {
		rel = in.p.rel + "/" + in.file
	}
	sites = append(sites, site{ID: id, File: rel, Line: line, Func: in.fn, Kind: kind})
	return id
}

func yieldStmt(id uint32) ast.Stmt {
	return &ast.ExprStmt{X: &ast.CallExpr{
		Fun:  &ast.SelectorExpr{X: ast.NewIdent("simrt"), Sel: ast.NewIdent("Yield")},
		Args: []ast.Expr{&ast.BasicLit{Kind: token.INT, Value: strconv.FormatUint(uint64(id), 10)}},
	}}
}

func (in *instr) block(list []ast.Stmt, entryPos token.Pos, entry bool) []ast.Stmt {
	var outl []ast.Stmt
	if entry {
		outl = append(outl, yieldStmt(in.newSite(entryPos, "entry")))
	}
	for _, s := range list {
		in.stmt(s)
		if in.full {
			outl = append(outl, yieldStmt(in.newSite(s.Pos(), "stmt")))
		}
		outl = append(outl, in.rewriteGo(s))
	}
	return outl
}

// rewriteGo turns `go f(x)` into `simrt.Go(func() { f(x) })`. Argument
// evaluation moves into the new task; the scheduler makes the spawn point
// itself a yield, so the difference is one more interleaving, not a different
// semantics for race-free code.
func (in *instr) rewriteGo(s ast.Stmt) ast.Stmt {
	g, ok := s.(*ast.GoStmt)
	if !ok {
		return s
	}
	goStmts++
	return &ast.ExprStmt{X: &ast.CallExpr{
		Fun: &ast.SelectorExpr{X: ast.NewIdent("simrt"), Sel: ast.NewIdent("Go")},
		Args: []ast.Expr{&ast.FuncLit{
			Type: &ast.FuncType{Params: &ast.FieldList{}},
			Body: &ast.BlockStmt{List: []ast.Stmt{&ast.ExprStmt{X: g.Call}}},
		}},
	}}
}

func (in *instr) stmt(s ast.Stmt) {
	switch t := s.(type) {
	case *ast.BlockStmt:
		t.List = in.block(t.List, t.Pos(), false)
	case *ast.IfStmt:
		in.exprs(t.Init, t.Cond)
		in.stmt(t.Body)
		if t.Else != nil {
			in.stmt(t.Else)
		}
	case *ast.ForStmt:
		in.exprs(t.Init, t.Cond, t.Post)
		in.stmt(t.Body)
	case *ast.RangeStmt:
		in.exprs(t.X)
		in.stmt(t.Body)
	case *ast.SwitchStmt:
		in.exprs(t.Init, t.Tag)
		in.clauses(t.Body)
	case *ast.TypeSwitchStmt:
		in.exprs(t.Init, t.Assign)
		in.clauses(t.Body)
	case *ast.SelectStmt:
		in.clauses(t.Body)
	case *ast.CaseClause:
		for _, e := range t.List {
			in.exprs(e)
		}
		t.Body = in.block(t.Body, t.Pos(), false)
	case *ast.CommClause:
		t.Body = in.block(t.Body, t.Pos(), false)
	case *ast.LabeledStmt:
		in.stmt(t.Stmt)
	default:
		in.exprs(s)
	}
}

func (in *instr) clauses(b *ast.BlockStmt) {
	for _, c := range b.List {
		in.stmt(c)
	}
}

// exprs instruments function literals nested anywhere inside the given nodes.
func (in *instr) exprs(nodes ...ast.Node) {
	for _, n := range nodes {
		if n == nil || isNilNode(n) {
			continue
		}
		ast.Inspect(n, func(x ast.Node) bool {
			if fl, ok := x.(*ast.FuncLit); ok {
				saved := in.fn
				in.fn = saved + ".func"
				fl.Body.List = in.block(fl.Body.List, fl.Pos(), true)
				in.fn = saved
				return false
			}
			return true
		})
	}
}

func isNilNode(n ast.Node) bool {
	switch t := n.(type) {
	case ast.Stmt:
		return t == nil
	case ast.Expr:
		return t == nil
	}
	return false
}

func instrumentFile(p *pkgInfo, name string, f *ast.File, full bool) string {
	in := &instr{p: p, file: name, full: full}
	// keep //go: directives that precede the package clause (build constraints)
	var header []string
	for _, cg := range f.Comments {
		if cg.Pos() > f.Package {
			break
		}
		for _, c := range cg.List {
			if strings.HasPrefix(c.Text, "//go:build") || strings.HasPrefix(c.Text, "// +build") {
				header = append(header, c.Text)
			}
		}
	}
	// function-level //go: directives (noinline etc.) are kept via Doc
	for _, d := range f.Decls {
		fd, ok := d.(*ast.FuncDecl)
		if !ok {
			continue
		}
		if fd.Doc != nil {
			var keep []*ast.Comment
			for _, c := range fd.Doc.List {
				if strings.HasPrefix(c.Text, "//go:") {
					keep = append(keep, c)
				}
			}
			if len(keep) > 0 {
				fd.Doc = &ast.CommentGroup{List: keep}
			} else {
				fd.Doc = nil
			}
		}
		if fd.Body == nil {
			continue
		}
		in.fn = fd.Name.Name
		if fd.Recv != nil && len(fd.Recv.List) == 1 {
			in.fn = recvName(fd.Recv.List[0].Type) + "." + fd.Name.Name
		}
		if in.fn == "init" {
			// package initialisation runs before any hook can be installed
			continue
		}
		fd.Body.List = in.block(fd.Body.List, fd.Pos(), true)
	}
	// drop all free-floating comments: the printer may otherwise interleave
	// them with inserted (position-less) statements.
	var docs []*ast.CommentGroup
	for _, d := range f.Decls {
		if fd, ok := d.(*ast.FuncDecl); ok && fd.Doc != nil {
			docs = append(docs, fd.Doc)
		}
	}
	f.Comments = docs
	f.Doc = nil
	// add the import as a separate declaration right after the existing imports
	imp := &ast.GenDecl{Tok: token.IMPORT, Specs: []ast.Spec{&ast.ImportSpec{
		Name: ast.NewIdent("simrt"),
		Path: &ast.BasicLit{Kind: token.STRING, Value: strconv.Quote(modPath + "/internal/simrt")},
	}}}
	f.Decls = append([]ast.Decl{imp}, f.Decls...)

	var b bytes.Buffer
	for _, h := range header {
		b.WriteString(h + "\n")
	}
	if len(header) > 0 {
		b.WriteString("\n")
	}
	if err := printer.Fprint(&b, fset, f); err != nil {
		die("print %s: %v", name, err)
	}
	b.WriteString("\nvar _ = simrt.Yield\n")
	// sanity: result must parse
	if _, err := parser.ParseFile(token.NewFileSet(), name, b.Bytes(), 0); err != nil {
		os.WriteFile("/verif/.work/bad.go", b.Bytes(), 0o644)
		die("instrumented %s does not parse: %v", name, err)
	}
	return b.String()
}

func recvName(e ast.Expr) string {
	switch t := e.(type) {
	case *ast.StarExpr:
		return recvName(t.X)
	case *ast.Ident:
		return t.Name
	case *ast.IndexExpr:
		return recvName(t.X)
	case *ast.IndexListExpr:
		return recvName(t.X)
	}
	return "?"
}

const simrtSrc = `// Package simrt is injected by the verification harness through go build -overlay.
// It does not exist in the repository.
package simrt

// Hook, when non-nil, is called at every instrumented yield point.
var Hook func(site uint32)

// Spawn, when non-nil, receives every goroutine the library starts.
var Spawn func(f func())

// Yield is a scheduling point. Inert when no hook is installed.
func Yield(site uint32) {
	if h := Hook; h != nil {
		h(site)
	}
}

// Go replaces the go statement in instrumented code.
func Go(f func()) {
	if s := Spawn; s != nil {
		s(f)
		return
	}
	go f()
}

// Global is one package-level variable of the code under test.
type Global struct {
	Name string
	Ptr  any // pointer to the variable
}

var globals []Global

// Register is called from generated init functions.
func Register(name string, ptr any) { globals = append(globals, Global{name, ptr}) }

// Globals returns every registered package-level variable.
func Globals() []Global { return globals }
`

const accessorSrc = `// VerifGlobal describes one package-level variable.
type VerifGlobal = simrt.Global

// VerifGlobals lists every package-level variable of every package of the module.
func VerifGlobals() []VerifGlobal { return simrt.Globals() }

// VerifSetYieldHook installs the scheduler callback (nil uninstalls).
func VerifSetYieldHook(f func(uint32)) { simrt.Hook = f }

// VerifSetSpawnHook installs the goroutine-spawn callback (nil uninstalls).
func VerifSetSpawnHook(f func(func())) { simrt.Spawn = f }
`
