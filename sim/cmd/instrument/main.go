// Command instrument prepares a `go build -overlay` description for the
// repository under test. Nothing is written under the repository; every
// generated file lives in -out and is mapped onto a virtual path inside the
// repository by overlay.json.
//
// It generates, from the AST of the *current* working tree:
//
//   - <repo>/internal/simrt/simrt.go      yield hook + globals registry (new package)
//   - <pkg>/zz_verif_globals.go           per package: registers the address of every
//     package-level variable (so that "no mutable global state" is checked against
//     whatever variables the tree has today, not a hand-kept list)
//   - <repo>/zz_verif_accessor.go         root package: exported Verif* entry points
//   - in -mode yield-*: replacement files with simrt__.Yield(site) inserted at
//     function entries and (hand-written files, or all files in yield-full) before
//     every statement; `go` statements are routed through simrt__.Go.
//
// Exit status: 0 ok, 2 anything else (never 1: this tool decides no property).
package main

import (
	"bytes"
	"encoding/json"
	"flag"
	"fmt"
	"go/ast"
	"go/build"
	"go/importer"
	"go/parser"
	"go/token"
	"go/types"
	"io"
	"os"
	"os/exec"
	"path/filepath"
	"reflect"
	"regexp"
	"sort"
	"strconv"
	"strings"
)

// ---------------------------------------------------------------------------
// Type information (optional). With it, multi-word copies of structs and small
// arrays are split into their parts with yields in between, so that the
// scheduler can also produce the torn reads and torn writes that a real
// machine may produce for a non-atomic copy. Without it (type checking failed
// for any reason) instrumentation proceeds without tearing.

var (
	typeInfo = map[*ast.File]*types.Info{}
	typePkg  = map[*ast.File]*types.Package{}
	tornN    int
)

type modImporter struct {
	std     types.Importer
	checked map[string]*types.Package
}

func (m *modImporter) Import(path string) (*types.Package, error) {
	if p := m.checked[path]; p != nil {
		return p, nil
	}
	return m.std.Import(path)
}

// typeCheck type-checks the module's packages in dependency order, using the
// compiler's export data for everything outside the module.
func typeCheck(pkgs []*pkgInfo, parsed map[*pkgInfo]map[string]*ast.File) error {
	cmd := exec.Command("go", "list", "-export", "-deps", "-f", "{{.ImportPath}}={{.Export}}", "./...")
	cmd.Dir = *repo
	out, err := cmd.Output()
	if err != nil {
		return fmt.Errorf("go list -export: %v", err)
	}
	exports := map[string]string{}
	for _, l := range strings.Split(string(out), "\n") {
		if i := strings.IndexByte(l, '='); i > 0 && l[i+1:] != "" {
			exports[l[:i]] = l[i+1:]
		}
	}
	lookup := func(path string) (io.ReadCloser, error) {
		f, ok := exports[path]
		if !ok {
			return nil, fmt.Errorf("no export data for %s", path)
		}
		return os.Open(f)
	}
	imp := &modImporter{std: importer.ForCompiler(fset, "gc", lookup), checked: map[string]*types.Package{}}
	remaining := append([]*pkgInfo(nil), pkgs...)
	for len(remaining) > 0 {
		progress := false
		var next []*pkgInfo
		for _, p := range remaining {
			ready := true
			var files []*ast.File
			for _, f := range p.files {
				af := parsed[p][f]
				files = append(files, af)
				for _, im := range af.Imports {
					ip, _ := strconv.Unquote(im.Path.Value)
					if strings.HasPrefix(ip, modPath) && imp.checked[ip] == nil && ip != p.imp {
						ready = false
					}
				}
			}
			if !ready {
				next = append(next, p)
				continue
			}
			info := &types.Info{Types: map[ast.Expr]types.TypeAndValue{}, Uses: map[*ast.Ident]types.Object{}, Defs: map[*ast.Ident]types.Object{}}
			conf := types.Config{Importer: imp, Error: func(error) {}}
			tp, _ := conf.Check(p.imp, fset, files, info)
			if tp == nil {
				return fmt.Errorf("type check of %s failed", p.imp)
			}
			imp.checked[p.imp] = tp
			for _, af := range files {
				typeInfo[af] = info
				typePkg[af] = tp
			}
			progress = true
		}
		if !progress {
			return fmt.Errorf("import cycle or unresolved module import")
		}
		remaining = next
	}
	return nil
}

// pureExpr: re-evaluating the expression has no side effect and names the
// same location (identifiers, field selections, dereferences, constant or
// identifier indices).
func pureExpr(e ast.Expr) bool {
	switch t := e.(type) {
	case *ast.Ident:
		return t.Name != "_"
	case *ast.SelectorExpr:
		return pureExpr(t.X)
	case *ast.StarExpr:
		return pureExpr(t.X)
	case *ast.ParenExpr:
		return pureExpr(t.X)
	case *ast.IndexExpr:
		switch t.Index.(type) {
		case *ast.Ident, *ast.BasicLit:
			return pureExpr(t.X)
		}
	}
	return false
}

func hasFuncLit(e ast.Expr) bool {
	found := false
	ast.Inspect(e, func(n ast.Node) bool {
		if _, ok := n.(*ast.FuncLit); ok {
			found = true
		}
		return !found
	})
	return found
}

// parts returns the selectors (".name" or "[i]") of the top-level parts of a
// multi-word value of type t that code in package pkg may name, or nil.
func parts(t types.Type, pkg *types.Package) []string {
	switch u := t.Underlying().(type) {
	case *types.Struct:
		var out []string
		for i := 0; i < u.NumFields(); i++ {
			f := u.Field(i)
			if f.Name() == "_" {
				continue
			}
			if !f.Exported() && f.Pkg() != pkg {
				return nil
			}
			out = append(out, "."+f.Name())
		}
		if len(out) < 2 || len(out) > 12 {
			return nil
		}
		return out
	case *types.Array:
		if u.Len() < 2 || u.Len() > 8 {
			return nil
		}
		var out []string
		for i := int64(0); i < u.Len(); i++ {
			out = append(out, fmt.Sprintf("[%d]", i))
		}
		return out
	}
	return nil
}

// throughMap reports whether e selects through a map element (m[k], m[k].f).
func throughMap(info *types.Info, e ast.Expr) bool {
	found := false
	ast.Inspect(e, func(n ast.Node) bool {
		if ix, ok := n.(*ast.IndexExpr); ok {
			if tv, ok := info.Types[ix.X]; ok && tv.Type != nil {
				if _, isMap := tv.Type.Underlying().(*types.Map); isMap {
					found = true
				}
			}
		}
		return !found
	})
	return found
}

// mentions reports whether expression e uses the name that l (an identifier) declares.
func mentions(e ast.Expr, l ast.Expr) bool {
	id, ok := l.(*ast.Ident)
	if !ok {
		return false
	}
	found := false
	ast.Inspect(e, func(n ast.Node) bool {
		if x, ok := n.(*ast.Ident); ok && x.Name == id.Name {
			found = true
		}
		return !found
	})
	return found
}

// tear rewrites the multi-word copy `L = R` / `c := R` (a struct or small
// array) into part-wise copies with yields in between. Single-threaded
// semantics are preserved: every read of R completes before the first store
// to L. It reports whether it rewrote the statement.
func (in *instr) tear(f *ast.File, src []byte, as *ast.AssignStmt, fn string) bool {
	info := typeInfo[f]
	if info == nil || len(as.Lhs) != 1 || len(as.Rhs) != 1 || (as.Tok != token.ASSIGN && as.Tok != token.DEFINE) {
		return false
	}
	tv, ok := info.Types[as.Rhs[0]]
	if !ok || tv.Type == nil {
		return false
	}
	ps := parts(tv.Type, typePkg[f])
	if ps == nil || hasFuncLit(as.Rhs[0]) {
		return false
	}
	L, R := as.Lhs[0], as.Rhs[0]
	if id, ok := L.(*ast.Ident); ok && id.Name == "_" {
		return false
	}
	if as.Tok == token.ASSIGN && !pureExpr(L) {
		return false
	}
	if as.Tok == token.ASSIGN {
		// the parts of L must be assignable one by one: L has the very type of R
		// (not an interface holding it) and is not an element of a map
		lt, ok := info.Types[L]
		if !ok || lt.Type == nil || !types.Identical(lt.Type, tv.Type) || throughMap(info, L) {
			return false
		}
	}
	if as.Tok == token.DEFINE && mentions(R, L) {
		return false // c := *c: after the definition the name means the copy
	}
	text := func(n ast.Node) string { return string(src[in.tf.Offset(n.Pos()):in.tf.Offset(n.End())]) }
	lt, rt := text(L), "("+text(R)+")"
	y := func() string { return fmt.Sprintf("simrt__.Yield(%d); ", in.newSite(as.Pos(), "torn", fn)) }
	var b strings.Builder
	switch {
	case as.Tok == token.DEFINE:
		if !pureExpr(R) {
			return false
		}
		// c := R, then the later parts are read again after a yield (torn load)
		b.WriteString(lt + " := " + rt + "; " + y())
		for _, p := range ps[1:] {
			b.WriteString(lt + p + " = " + rt + p + "; ")
		}
	default:
		b.WriteString("{ vt__ := " + rt + "; ")
		if pureExpr(R) {
			b.WriteString(y())
			for _, p := range ps[1:] {
				b.WriteString("vt__" + p + " = " + rt + p + "; ")
			}
		}
		for i, p := range ps {
			if i > 0 {
				b.WriteString(y())
			}
			b.WriteString("(" + lt + ")" + p + " = vt__" + p + "; ")
		}
		b.WriteString("}")
	}
	in.replace(as.Pos(), in.tf.Offset(as.End())-in.tf.Offset(as.Pos()), b.String())
	tornN++
	hot[fn] = true // a non-atomic copy is a place where a switch can tear state
	return true
}

// hoistIfInit turns `if init; cond {…}` into `{ init; yield; if cond {…} }`, so
// that a switch can fall between the init statement and the condition (a
// load in the init followed by a compare-and-swap in the condition is one
// statement to the eye, two steps to the machine). The new block keeps the
// scope of what init declares exactly as it was (condition, body and every
// else branch are inside it), and no source text is moved: the keyword `if`
// becomes `{` and the semicolon after init becomes `; yield; if`. When init is
// a multi-word copy `c := R` of a re-readable expression, the later parts are
// read again after the yield (torn load), as for any other copy.
func (in *instr) hoistIfInit(f *ast.File, src []byte, is *ast.IfStmt, fn string) {
	if ei, ok := is.Else.(*ast.IfStmt); ok {
		defer in.hoistIfInit(f, src, ei, fn) // `else if init; cond` becomes `else { init; yield; if cond … }`
	}
	if is.Init == nil || is.Cond == nil {
		return
	}
	from, to := in.tf.Offset(is.Init.End()), in.tf.Offset(is.Cond.Pos())
	if from >= to || strings.TrimSpace(string(src[from:to])) != ";" {
		return
	}
	semi := from + strings.IndexByte(string(src[from:to]), ';')
	var b strings.Builder
	kind := "ifinit"
	var torn []string
	if as, ok := is.Init.(*ast.AssignStmt); ok && typeInfo[f] != nil && as.Tok == token.DEFINE && len(as.Lhs) == 1 && len(as.Rhs) == 1 && pureExpr(as.Rhs[0]) && !mentions(as.Rhs[0], as.Lhs[0]) {
		if tv, ok := typeInfo[f].Types[as.Rhs[0]]; ok && tv.Type != nil {
			if ps := parts(tv.Type, typePkg[f]); ps != nil {
				text := func(n ast.Node) string { return string(src[in.tf.Offset(n.Pos()):in.tf.Offset(n.End())]) }
				lt, rt := text(as.Lhs[0]), "("+text(as.Rhs[0])+")"
				for _, p := range ps[1:] {
					torn = append(torn, lt+p+" = "+rt+p+"; ")
				}
				kind = "torn"
			}
		}
	}
	b.WriteString(fmt.Sprintf("; simrt__.Yield(%d); ", in.newSite(is.Init.Pos(), kind, fn)))
	for _, t := range torn {
		b.WriteString(t)
	}
	b.WriteString("if ")
	in.replace(is.If, 2, "{ ")
	in.edits = append(in.edits, edit{off: semi, del: 1, text: b.String(), seq: len(in.edits)})
	in.insert(is.End(), " }")
	if kind == "torn" {
		tornN++
		hot[fn] = true
	}
}

// sharedHot lists the functions that WRITE a variable which outlives the call
// and is not reached through a parameter: a package-level variable, or a
// variable of an enclosing function captured by a closure (a memo hidden in a
// closure is invisible to the package-state snapshot, but not to the type
// checker). The site policy aims at these first.
var sharedHot = map[string]bool{}

func rootIdent(e ast.Expr) *ast.Ident {
	for {
		switch t := e.(type) {
		case *ast.Ident:
			return t
		case *ast.ParenExpr:
			e = t.X
		case *ast.SelectorExpr:
			e = t.X
		case *ast.IndexExpr:
			e = t.X
		case *ast.StarExpr:
			e = t.X
		case *ast.SliceExpr:
			e = t.X
		default:
			return nil
		}
	}
}

func markShared(f *ast.File) {
	info, pkg := typeInfo[f], typePkg[f]
	if info == nil || pkg == nil {
		return
	}
	for _, d := range f.Decls {
		fd, ok := d.(*ast.FuncDecl)
		if !ok || fd.Body == nil {
			continue
		}
		fn := fd.Name.Name
		if fd.Recv != nil && len(fd.Recv.List) == 1 {
			fn = recvName(fd.Recv.List[0].Type) + "." + fd.Name.Name
		}
		written := func(e ast.Expr, lit *ast.FuncLit, name string) {
			id := rootIdent(e)
			if id == nil {
				return
			}
			obj := info.Uses[id]
			if obj == nil {
				obj = info.Defs[id]
			}
			v, ok := obj.(*types.Var)
			if !ok || v.IsField() {
				return
			}
			if v.Parent() == pkg.Scope() {
				sharedHot[name] = true
			} else if lit != nil && (v.Pos() < lit.Pos() || v.Pos() >= lit.End()) {
				sharedHot[name] = true
			}
		}
		// name follows the site table: a function literal is "<enclosing>.func"
		var walk func(n ast.Node, lit *ast.FuncLit, name string)
		walk = func(n ast.Node, lit *ast.FuncLit, name string) {
			ast.Inspect(n, func(m ast.Node) bool {
				switch t := m.(type) {
				case *ast.FuncLit:
					if m != n {
						walk(t, t, name+".func")
						return false
					}
				case *ast.AssignStmt:
					if t.Tok != token.DEFINE {
						for _, l := range t.Lhs {
							written(l, lit, name)
						}
					}
				case *ast.IncDecStmt:
					written(t.X, lit, name)
				case *ast.CallExpr:
					// top.CompareAndSwap(…), cache.Store(…), pool.Put(…) on a variable
					// that outlives the call
					if sel, ok := t.Fun.(*ast.SelectorExpr); ok && syncish[sel.Sel.Name] {
						written(sel.X, lit, name)
					}
				}
				return true
			})
		}
		walk(fd.Body, nil, fn)
	}
}

// hot lists the functions that touch package-level state or synchronisation:
// the scheduler's site policy aims preemptions at them.
var hot = map[string]bool{}

var syncish = map[string]bool{"Lock": true, "Unlock": true, "RLock": true, "RUnlock": true, "Do": true, "Wait": true, "Done": true,
	"Load": true, "Store": true, "Swap": true, "CompareAndSwap": true, "Get": true, "Put": true, "Add": false}

func markHot(p *pkgInfo, f *ast.File) {
	globals := map[string]bool{}
	for _, g := range p.globals {
		globals[g] = true
	}
	for _, d := range f.Decls {
		fd, ok := d.(*ast.FuncDecl)
		if !ok || fd.Body == nil {
			continue
		}
		fn := fd.Name.Name
		if fd.Recv != nil && len(fd.Recv.List) == 1 {
			fn = recvName(fd.Recv.List[0].Type) + "." + fd.Name.Name
		}
		ast.Inspect(fd.Body, func(n ast.Node) bool {
			switch t := n.(type) {
			case *ast.Ident:
				if globals[t.Name] && t.Obj == nil || (t.Obj != nil && t.Obj.Kind == ast.Var && globals[t.Name] && t.Obj.Pos() < fd.Pos()) {
					hot[fn] = true
				}
			case *ast.GoStmt:
				hot[fn] = true
			case *ast.SelectorExpr:
				if syncish[t.Sel.Name] {
					if id, ok := t.X.(*ast.Ident); ok && (globals[id.Name] || id.Name == "atomic" || id.Name == "sync") {
						hot[fn] = true
					}
					if inner, ok := t.X.(*ast.SelectorExpr); ok {
						if id, ok := inner.X.(*ast.Ident); ok && globals[id.Name] {
							hot[fn] = true
						}
					}
				}
			}
			return true
		})
	}
}

type site struct {
	ID   uint32 `json:"id"`
	File string `json:"file"`
	Line int    `json:"line"`
	Func string `json:"func"`
	Kind string `json:"kind"` // entry | stmt
}

type pkgInfo struct {
	dir     string // absolute
	rel     string // relative to repo root ("." for root)
	name    string
	imp     string
	files   []string
	globals []string
}

var (
	repo    = flag.String("repo", "/repo", "repository root")
	out     = flag.String("out", "", "output directory (must exist)")
	mode    = flag.String("mode", "accessor", "accessor | yield-entry | yield-full")
	noTear  = flag.Bool("no-tear", false, "do not split multi-word copies")
	modPath string
	fset    = token.NewFileSet()
	sites   []site
	goStmts int
	goCount int // go statements found by the scan (all modes)
	// mayBlock: the module uses synchronisation primitives, channels or goroutines
	mayBlock bool
)

func die(f string, a ...any) {
	fmt.Fprintf(os.Stderr, "instrument: "+f+"\n", a...)
	os.Exit(2)
}

func main() {
	flag.Parse()
	if *out == "" {
		die("-out required")
	}
	gm, err := os.ReadFile(filepath.Join(*repo, "go.mod"))
	if err != nil {
		die("%v", err)
	}
	// module path: `module p`, `module "p"`, or the block form `module (\n p \n)`
	m := regexp.MustCompile(`(?m)^module\s*\(?\s*"?([^\s"()]+)"?`).FindSubmatch(gm)
	if m == nil {
		die("no module line in go.mod")
	}
	modPath = string(m[1])

	pkgs := findPackages()
	overlay := map[string]string{}
	sites = append(sites, site{ID: 0, File: "<none>", Kind: "none"})

	// simrt
	simrtDir := filepath.Join(*repo, "internal", "simrt")
	if _, err := os.Stat(simrtDir); err == nil {
		die("repository already has internal/simrt")
	}
	write(overlay, filepath.Join(simrtDir, "simrt.go"), "simrt.go", simrtSrc)

	var root *pkgInfo
	for _, p := range pkgs {
		if p.rel == "." {
			root = p
		}
	}
	if root == nil {
		die("no root package")
	}

	allParsed := map[*pkgInfo]map[string]*ast.File{}
	for _, p := range pkgs {
		allParsed[p] = map[string]*ast.File{}
		for _, f := range p.files {
			af, err := parser.ParseFile(fset, filepath.Join(p.dir, f), nil, parser.ParseComments)
			if err != nil {
				die("parse: %v", err)
			}
			allParsed[p][f] = af
		}
	}
	if strings.HasPrefix(*mode, "yield") && !*noTear {
		if err := typeCheck(pkgs, allParsed); err != nil {
			fmt.Fprintf(os.Stderr, "instrument: no type information (%v): multi-word copies are not split\n", err)
			typeInfo = map[*ast.File]*types.Info{}
		}
	}
	for i, p := range pkgs {
		parsed := allParsed[p]
		for _, f := range p.files {
			af := parsed[f]
			collectGlobals(p, af)
			scanBlocking(af)
			harvestConstants(af)
		}
		sort.Strings(p.globals)
		for _, f := range p.files {
			markHot(p, parsed[f])
			markShared(parsed[f])
		}
		// globals registration file
		var b bytes.Buffer
		fmt.Fprintf(&b, "//go:build verif\n\npackage %s\n\nimport simrt__ %q\n\n", p.name, modPath+"/internal/simrt")
		fmt.Fprintf(&b, "var _ = simrt__.Register\n\nfunc init() {\n")
		for _, g := range p.globals {
			fmt.Fprintf(&b, "\tsimrt__.Register(%q, &%s)\n", p.imp+"."+g, g)
		}
		fmt.Fprintf(&b, "}\n")
		write(overlay, filepath.Join(p.dir, "zz_verif_globals.go"), fmt.Sprintf("globals_%d.go", i), b.String())

		if strings.HasPrefix(*mode, "yield") {
			for _, f := range p.files {
				af := parsed[f]
				generated := isGenerated(af)
				full := *mode == "yield-full" || !generated
				src := instrumentFile(p, f, af, full)
				write(overlay, filepath.Join(p.dir, f), fmt.Sprintf("y_%d_%s", i, f), src)
			}
		}
	}

	// root accessor
	var b bytes.Buffer
	fmt.Fprintf(&b, "//go:build verif\n\npackage %s\n\nimport simrt__ %q\n\n", root.name, modPath+"/internal/simrt")
	b.WriteString(accessorSrc)
	// 256-bit constants written in the source as four 64-bit limbs: a dictionary
	// for the input generator (a comparison against a mistyped constant cannot
	// be hit by chance, but the constant itself can be offered as an input)
	b.WriteString("\n// VerifConstants lists the four-limb integer literals of the module's sources.\nfunc VerifConstants() [][4]uint64 {\n\treturn [][4]uint64{\n")
	for _, c := range harvested {
		fmt.Fprintf(&b, "\t\t{%d, %d, %d, %d},\n", c[0], c[1], c[2], c[3])
	}
	b.WriteString("\t}\n}\n")
	write(overlay, filepath.Join(root.dir, "zz_verif_accessor.go"), "accessor.go", b.String())

	oj, _ := json.MarshalIndent(map[string]any{"Replace": overlay}, "", " ")
	if err := os.WriteFile(filepath.Join(*out, "overlay.json"), oj, 0o644); err != nil {
		die("%v", err)
	}
	var hotList []string
	for k := range hot {
		hotList = append(hotList, k)
	}
	sort.Strings(hotList)
	var sharedList []string
	for k := range sharedHot {
		sharedList = append(sharedList, k)
	}
	sort.Strings(sharedList)
	sj, _ := json.Marshal(map[string]any{"mode": *mode, "sites": sites, "go_stmts": goCount, "module": modPath, "may_block": mayBlock, "hot_funcs": hotList, "shared_hot_funcs": sharedList})
	if err := os.WriteFile(filepath.Join(*out, "sites.json"), sj, 0o644); err != nil {
		die("%v", err)
	}
	nglob := 0
	for _, p := range pkgs {
		nglob += len(p.globals)
	}
	fmt.Printf("instrument: mode=%s packages=%d globals=%d sites=%d go_stmts=%d may_block=%v\n", *mode, len(pkgs), nglob, len(sites)-1, goCount, mayBlock)
	if tornN > 0 {
		fmt.Printf("instrument: %d multi-word copies split into parts\n", tornN)
	}
}

func write(overlay map[string]string, virt, name, src string) {
	p := filepath.Join(*out, name)
	if err := os.WriteFile(p, []byte(src), 0o644); err != nil {
		die("%v", err)
	}
	overlay[virt] = p
}

func findPackages() []*pkgInfo {
	var res []*pkgInfo
	ctx := build.Default
	ctx.BuildTags = []string{"verif"}
	ctx.CgoEnabled = false
	filepath.WalkDir(*repo, func(path string, d os.DirEntry, err error) error {
		if err != nil {
			return nil
		}
		if !d.IsDir() {
			return nil
		}
		base := d.Name()
		if path != *repo && (strings.HasPrefix(base, ".") || strings.HasPrefix(base, "_") || base == "testdata" || base == "vendor") {
			return filepath.SkipDir
		}
		if path != *repo {
			if _, err := os.Stat(filepath.Join(path, "go.mod")); err == nil {
				return filepath.SkipDir // a nested module is not part of this one
			}
		}
		bp, err := ctx.ImportDir(path, 0)
		if err != nil || len(bp.GoFiles) == 0 {
			return nil
		}
		if bp.Name == "main" {
			return nil
		}
		rel, _ := filepath.Rel(*repo, path)
		imp := modPath
		if rel != "." {
			imp = modPath + "/" + filepath.ToSlash(rel)
		}
		fs := append([]string(nil), bp.GoFiles...)
		sort.Strings(fs)
		var keep []string
		for _, f := range fs {
			if strings.HasPrefix(f, "zz_verif_") {
				continue
			}
			keep = append(keep, f)
		}
		res = append(res, &pkgInfo{dir: path, rel: rel, name: bp.Name, imp: imp, files: keep})
		return nil
	})
	sort.Slice(res, func(i, j int) bool { return res[i].rel < res[j].rel })
	return res
}

func collectGlobals(p *pkgInfo, f *ast.File) {
	for _, d := range f.Decls {
		gd, ok := d.(*ast.GenDecl)
		if !ok || gd.Tok != token.VAR {
			continue
		}
		for _, s := range gd.Specs {
			vs := s.(*ast.ValueSpec)
			for _, n := range vs.Names {
				if n.Name != "_" {
					p.globals = append(p.globals, n.Name)
				}
			}
		}
	}
}

var (
	harvested    [][4]uint64
	harvestedSet = map[[4]uint64]bool{}
)

// harvestConstants collects composite literals made of exactly four unsigned
// integer literals (the limb form of field elements and scalars).
func harvestConstants(f *ast.File) {
	ast.Inspect(f, func(n ast.Node) bool {
		cl, ok := n.(*ast.CompositeLit)
		if !ok || len(cl.Elts) != 4 {
			return true
		}
		var c [4]uint64
		for i, e := range cl.Elts {
			bl, ok := e.(*ast.BasicLit)
			if !ok || bl.Kind != token.INT {
				return true
			}
			v, err := strconv.ParseUint(strings.ReplaceAll(bl.Value, "_", ""), 0, 64)
			if err != nil {
				return true
			}
			c[i] = v
		}
		if !harvestedSet[c] && len(harvested) < 512 {
			harvestedSet[c] = true
			harvested = append(harvested, c)
		}
		return true
	})
}

// scanBlocking notes whether a file could block a goroutine or start one.
func scanBlocking(f *ast.File) {
	// Packages that neither block, nor start goroutines, nor run callbacks on
	// goroutines of their own. Anything else a file imports (sync, time, context,
	// runtime — finalizers —, iter — coroutines —, a dependency such as
	// golang.org/x/sync/errgroup …) may make library code run on, or wait for, a
	// goroutine that no go statement of the module started: the scheduler then
	// runs with its blocked-task monitor and identifies the caller of every yield.
	for _, im := range f.Imports {
		p, _ := strconv.Unquote(im.Path.Value)
		switch {
		case strings.HasPrefix(p, modPath):
		case p == "bytes", p == "errors", p == "fmt", p == "hash", p == "io", p == "math", p == "slices", p == "strconv", p == "strings", p == "unsafe", p == "sort", p == "cmp", p == "maps",
			p == "unicode", p == "unicode/utf8", p == "crypto", p == "crypto/rand", p == "crypto/subtle", p == "crypto/sha256", p == "crypto/sha512", p == "crypto/hmac",
			strings.HasPrefix(p, "encoding/"), strings.HasPrefix(p, "math/"), strings.HasPrefix(p, "hash/"):
		default:
			mayBlock = true
		}
	}
	ast.Inspect(f, func(n ast.Node) bool {
		switch t := n.(type) {
		case *ast.GoStmt:
			mayBlock = true
			goCount++
		case *ast.SelectStmt, *ast.SendStmt, *ast.ChanType:
			mayBlock = true
		case *ast.UnaryExpr:
			if t.Op == token.ARROW {
				mayBlock = true
			}
		}
		return true
	})
}

var genRe = regexp.MustCompile(`^// Code generated .* DO NOT EDIT\.$`)

func isGenerated(f *ast.File) bool {
	for _, cg := range f.Comments {
		if cg.Pos() > f.Package {
			break
		}
		for _, c := range cg.List {
			if genRe.MatchString(c.Text) {
				return true
			}
		}
	}
	return false
}

// ---------------------------------------------------------------------------

// An edit inserts (or, with del > 0, replaces) text at a byte offset of the
// original source. Working on the source text instead of re-printing the AST
// keeps every comment, every compiler directive and every line number of the
// original file exactly where it was.
type edit struct {
	off  int
	del  int
	text string
	seq  int
}

type instr struct {
	p       *pkgInfo
	file    string
	full    bool
	tf      *token.File
	edits   []edit
	astFile *ast.File
	src     []byte
	// captured: local variables that a function literal refers to from outside
	// its own body (they may outlive the call that declared them)
	captured map[types.Object]bool
	// keepImport: selector expressions (time.Sleep, runtime.Gosched) whose last
	// use may have been rewritten; a blank use keeps the import alive
	keepImport map[string]bool
}

// isPackage reports whether id denotes an imported package at this place (and
// not a variable or parameter that shadows it).
func (in *instr) isPackage(id *ast.Ident) bool {
	if info := typeInfo[in.astFile]; info != nil {
		_, ok := info.Uses[id].(*types.PkgName)
		return ok
	}
	return id.Obj == nil
}

// importName returns the name under which this file imports path ("" if it does not).
func (in *instr) importName(path string) string {
	for _, im := range in.astFile.Imports {
		if p, _ := strconv.Unquote(im.Path.Value); p == path {
			if im.Name != nil {
				return im.Name.Name
			}
			return path[strings.LastIndex(path, "/")+1:]
		}
	}
	return "\x00none"
}

func (in *instr) newSite(pos token.Pos, kind, fn string) uint32 {
	id := uint32(len(sites))
	line := 0
	if pos.IsValid() {
		line = fset.Position(pos).Line
	}
	rel := in.file
	if in.p.rel != "." {
		rel = in.p.rel + "/" + in.file
	}
	sites = append(sites, site{ID: id, File: rel, Line: line, Func: fn, Kind: kind})
	return id
}

func (in *instr) insert(pos token.Pos, text string) {
	in.edits = append(in.edits, edit{off: in.tf.Offset(pos), text: text, seq: len(in.edits)})
}

func (in *instr) replace(pos token.Pos, n int, text string) {
	in.edits = append(in.edits, edit{off: in.tf.Offset(pos), del: n, text: text, seq: len(in.edits)})
}

func (in *instr) yieldAt(pos token.Pos, kind, fn string) {
	in.insert(pos, fmt.Sprintf("simrt__.Yield(%d); ", in.newSite(pos, kind, fn)))
}

// findCaptured collects the local variables of this file that some function
// literal uses from outside its own body.
func (in *instr) findCaptured(f *ast.File) {
	info, pkg := typeInfo[f], typePkg[f]
	if info == nil || pkg == nil {
		return
	}
	in.captured = map[types.Object]bool{}
	var lits []*ast.FuncLit
	var visit func(n ast.Node) bool
	visit = func(n ast.Node) bool {
		switch t := n.(type) {
		case *ast.FuncLit:
			lits = append(lits, t)
			ast.Inspect(t.Body, visit)
			lits = lits[:len(lits)-1]
			return false
		case *ast.Ident:
			if len(lits) == 0 {
				return true
			}
			v, ok := info.Uses[t].(*types.Var)
			if !ok || v.IsField() || v.Parent() == pkg.Scope() || v.Parent() == types.Universe || v.Pkg() != pkg {
				return true
			}
			outer := lits[0]
			if v.Pos() < outer.Pos() || v.Pos() >= outer.End() {
				in.captured[v] = true
				return true
			}
			// declared inside the outermost literal: captured if an inner literal uses it from outside
			inner := lits[len(lits)-1]
			if v.Pos() < inner.Pos() || v.Pos() >= inner.End() {
				in.captured[v] = true
			}
		}
		return true
	}
	ast.Inspect(f, visit)
}

// registerCaptured announces, right after the statement that declares it, every
// captured local variable to simrt__.Captured. Only announcements made while the
// package is being initialised are kept (a closure built then, and the state it
// holds, lives as long as the process: it is package state that no
// package-level variable's value shows); later calls return at once.
func (in *instr) registerCaptured(s ast.Stmt, fn string) {
	if len(in.captured) == 0 {
		return
	}
	info := typeInfo[in.astFile]
	var ids []*ast.Ident
	switch t := s.(type) {
	case *ast.DeclStmt:
		if gd, ok := t.Decl.(*ast.GenDecl); ok && gd.Tok == token.VAR {
			for _, sp := range gd.Specs {
				if vs, ok := sp.(*ast.ValueSpec); ok {
					ids = append(ids, vs.Names...)
				}
			}
		}
	case *ast.AssignStmt:
		if t.Tok == token.DEFINE {
			for _, l := range t.Lhs {
				if id, ok := l.(*ast.Ident); ok {
					ids = append(ids, id)
				}
			}
		}
	}
	for _, id := range ids {
		if id.Name == "_" {
			continue
		}
		if obj := info.Defs[id]; obj != nil && in.captured[obj] {
			in.insert(s.End(), fmt.Sprintf("; simrt__.Captured(%q, &%s)", in.p.imp+"."+fn+"."+id.Name, id.Name))
		}
	}
}

// stmts instruments one statement list.
func (in *instr) stmts(list []ast.Stmt, fn string) {
	for _, s := range list {
		in.registerCaptured(s, fn)
		if in.full {
			if _, isEmpty := s.(*ast.EmptyStmt); !isEmpty {
				in.yieldAt(s.Pos(), "stmt", fn)
			}
			if as, ok := s.(*ast.AssignStmt); ok && in.astFile != nil && in.tear(in.astFile, in.src, as, fn) {
				continue
			}
			if is, ok := s.(*ast.IfStmt); ok && in.astFile != nil {
				in.hoistIfInit(in.astFile, in.src, is, fn)
			}
		}
		in.walk(s, fn)
	}
}

// walk visits a node, instrumenting every nested block, function literal and
// go statement.
func (in *instr) walk(n ast.Node, fn string) {
	if n == nil || reflect.ValueOf(n).IsNil() {
		return
	}
	ast.Inspect(n, func(x ast.Node) bool {
		switch t := x.(type) {
		case *ast.ForStmt:
			// `for !done.Load() {}`: a loop without statements has no yield of its
			// own and would spin with the token for ever
			if t.Body != nil && len(t.Body.List) == 0 {
				in.yieldAt(t.Body.Lbrace+1, "stmt", fn)
			}
		case *ast.RangeStmt:
			if t.Body != nil && len(t.Body.List) == 0 {
				in.yieldAt(t.Body.Lbrace+1, "stmt", fn)
			}
		case *ast.SelectorExpr:
			// time.Sleep -> simrt.Sleep, runtime.Gosched -> simrt.Gosched (called
			// or used as a value): a task that polls gives the token away instead
			// of burning steps or real time
			if id, ok := t.X.(*ast.Ident); ok && in.isPackage(id) {
				if (id.Name == in.importName("time") && t.Sel.Name == "Sleep") || (id.Name == in.importName("runtime") && t.Sel.Name == "Gosched") {
					in.replace(id.Pos(), len(id.Name), "simrt__")
					in.keepImport[id.Name+"."+t.Sel.Name] = true
				}
			}
		case *ast.CallExpr:
			// sync.OnceValue(f), sync.OnceValues(f), sync.OnceFunc(f): whatever f
			// builds lives as long as the returned function value, which cannot be
			// walked. f announces itself when it runs (simrt__.LazyInit); if that
			// happens after package initialisation, state has been created lazily.
			if sel, ok := t.Fun.(*ast.SelectorExpr); ok && len(t.Args) == 1 {
				if id, ok := sel.X.(*ast.Ident); ok && id.Name == "sync" && (sel.Sel.Name == "OnceValue" || sel.Sel.Name == "OnceValues" || sel.Sel.Name == "OnceFunc") {
					if fl, ok := t.Args[0].(*ast.FuncLit); ok {
						// only a once-function CREATED during package initialisation is
						// package state; one created inside a call dies with it. The
						// moment of creation is captured by wrapping the literal:
						//   func(born bool) T { return func… { LazyInit(name, born); … } }(simrt__.Born())
						typ := string(in.src[in.tf.Offset(fl.Type.Pos()):in.tf.Offset(fl.Type.End())])
						in.insert(fl.Pos(), "func(born__ bool) "+typ+" { return ")
						in.insert(fl.Body.Lbrace+1, fmt.Sprintf("simrt__.LazyInit(%q, born__); ", in.p.imp+"."+fn+" (sync."+sel.Sel.Name+")"))
						in.insert(fl.End(), " }(simrt__.Born())")
					}
				}
			}
		case *ast.FuncLit:
			lfn := fn + ".func"
			in.yieldAt(t.Body.Lbrace+1, "entry", lfn)
			in.stmts(t.Body.List, lfn)
			return false
		case *ast.BlockStmt:
			in.stmts(t.List, fn)
			return false
		case *ast.SwitchStmt:
			in.walk(t.Init, fn)
			in.walk(t.Tag, fn)
			for _, c := range t.Body.List {
				in.walk(c, fn)
			}
			return false
		case *ast.TypeSwitchStmt:
			in.walk(t.Init, fn)
			in.walk(t.Assign, fn)
			for _, c := range t.Body.List {
				in.walk(c, fn)
			}
			return false
		case *ast.SelectStmt:
			for _, c := range t.Body.List {
				in.walk(c, fn)
			}
			return false
		case *ast.CaseClause:
			for _, e := range t.List {
				in.walk(e, fn)
			}
			in.stmts(t.Body, fn)
			return false
		case *ast.CommClause:
			if t.Comm != nil {
				in.walk(t.Comm, fn)
			}
			in.stmts(t.Body, fn)
			return false
		case *ast.GoStmt:
			goStmts++
			if !in.goEager(t) {
				// no type information: go f(x) -> simrt__.Go(func() { f(x) }); the
				// function value and the arguments are then evaluated by the new
				// task instead of at the go statement (a difference only for code
				// that reassigns them afterwards)
				in.replace(t.Go, 2, "simrt__.Go(func() {")
				in.insert(t.End(), " })")
			}
			in.walk(t.Call, fn)
			return false
		}
		return true
	})
}

// goEager rewrites `go FUN(ARGS)` into
//
//	func(fn__ SIG, p0__ T0, …) { simrt__.Go(func() { fn__(p0__, …) }) }(FUN, ARGS)
//
// so that, exactly as the language specifies for a go statement, the function
// value and the arguments are evaluated where the statement stands and only the
// call itself happens in the new task. FUN and ARGS stay where they are in the
// source (nested function literals keep their own edits); the types come from
// the type checker. It reports false when that is not possible (no type
// information, a built-in, a type from a package this file does not import).
func (in *instr) goEager(g *ast.GoStmt) bool {
	info := typeInfo[in.astFile]
	pkg := typePkg[in.astFile]
	if info == nil || pkg == nil {
		return false
	}
	tv, ok := info.Types[g.Call.Fun]
	if !ok || tv.Type == nil || tv.IsBuiltin() || tv.IsType() {
		return false
	}
	sig, ok := tv.Type.Underlying().(*types.Signature)
	if !ok {
		return false
	}
	if !sig.Variadic() && len(g.Call.Args) != sig.Params().Len() {
		return false // f(g()) with a multi-value g
	}
	// First choice: { fn__, p0__, … := FUN, ARGS; simrt__.Go(func() { fn__(p0__, …) }) }
	// No type has to be written down, so nothing can be shadowed, unexported or
	// not imported. It does not fit an untyped constant or nil among the
	// arguments (a variable would take the default type); those take the typed
	// wrapper below.
	plain := true
	for _, a := range g.Call.Args {
		at, ok := info.Types[a]
		if !ok || at.Type == nil || at.IsNil() {
			plain = false
			break
		}
		if b, isBasic := at.Type.(*types.Basic); isBasic && b.Info()&types.IsUntyped != 0 {
			plain = false
			break
		}
	}
	if plain {
		lhs := []string{"fn__"}
		var use []string
		for i := range g.Call.Args {
			n := fmt.Sprintf("p%d__", i)
			lhs = append(lhs, n)
			if g.Call.Ellipsis.IsValid() && i == len(g.Call.Args)-1 {
				n += "..."
			}
			use = append(use, n)
		}
		in.replace(g.Go, 2, "{ "+strings.Join(lhs, ", ")+" := ")
		sep := ", "
		if len(g.Call.Args) == 0 {
			sep = ""
		}
		in.replace(g.Call.Lparen, 1, sep)
		if g.Call.Ellipsis.IsValid() {
			in.replace(g.Call.Ellipsis, 3, "")
		}
		in.replace(g.Call.Rparen, 1, "; simrt__.Go(func() { fn__("+strings.Join(use, ", ")+") }) }")
		return true
	}
	names := map[string]string{}
	for _, im := range in.astFile.Imports {
		path, _ := strconv.Unquote(im.Path.Value)
		if im.Name != nil {
			names[path] = im.Name.Name
		} else {
			names[path] = ""
		}
	}
	bad := false
	scope := pkg.Scope().Innermost(g.Pos())
	qual := func(p *types.Package) string {
		if p == pkg {
			return ""
		}
		n, ok := names[p.Path()]
		if !ok || n == "_" || n == "." {
			bad = true
			return p.Name()
		}
		if n == "" {
			n = p.Name()
		}
		// a parameter or variable of that name may shadow the package here
		if scope != nil {
			if _, obj := scope.LookupParent(n, g.Pos()); obj != nil {
				if pn, isPkg := obj.(*types.PkgName); !isPkg || pn.Imported() != p {
					bad = true
				}
			}
		}
		return n
	}
	var decl, use []string
	decl = append(decl, "fn__ "+types.TypeString(sig, qual))
	np := sig.Params().Len()
	for i := 0; i < np; i++ {
		pt := sig.Params().At(i).Type()
		name := fmt.Sprintf("p%d__", i)
		switch {
		case sig.Variadic() && i == np-1:
			// also right for f(xs...): a slice passed with ... to a variadic
			// parameter is passed on as it is
			decl = append(decl, name+" ..."+types.TypeString(pt.(*types.Slice).Elem(), qual))
			use = append(use, name+"...")
		default:
			decl = append(decl, name+" "+types.TypeString(pt, qual))
			use = append(use, name)
		}
	}
	// every named type in the signature must be nameable where the statement
	// stands: exported if it comes from another package, not shadowed by a local
	// if it is the module's own
	var nameable func(t types.Type, depth int) bool
	nameable = func(t types.Type, depth int) bool {
		if depth > 8 {
			return true
		}
		switch u := t.(type) {
		case *types.Named:
			o := u.Obj()
			if o.Pkg() != nil && o.Pkg() != pkg && !o.Exported() {
				return false
			}
			if o.Pkg() == pkg && scope != nil {
				if _, found := scope.LookupParent(o.Name(), g.Pos()); found != o {
					return false
				}
			}
			if ta := u.TypeArgs(); ta != nil {
				for i := 0; i < ta.Len(); i++ {
					if !nameable(ta.At(i), depth+1) {
						return false
					}
				}
			}
			return true
		case *types.Pointer:
			return nameable(u.Elem(), depth+1)
		case *types.Slice:
			return nameable(u.Elem(), depth+1)
		case *types.Array:
			return nameable(u.Elem(), depth+1)
		case *types.Chan:
			return nameable(u.Elem(), depth+1)
		case *types.Map:
			return nameable(u.Key(), depth+1) && nameable(u.Elem(), depth+1)
		case *types.Signature:
			for i := 0; i < u.Params().Len(); i++ {
				if !nameable(u.Params().At(i).Type(), depth+1) {
					return false
				}
			}
			for i := 0; i < u.Results().Len(); i++ {
				if !nameable(u.Results().At(i).Type(), depth+1) {
					return false
				}
			}
			return true
		case *types.Struct:
			for i := 0; i < u.NumFields(); i++ {
				if !nameable(u.Field(i).Type(), depth+1) {
					return false
				}
			}
			return true
		}
		return true
	}
	if bad || !nameable(sig, 0) {
		return false
	}
	wrapper := "func(" + strings.Join(decl, ", ") + ") { simrt__.Go(func() { fn__(" + strings.Join(use, ", ") + ") }) }("
	in.replace(g.Go, 2, wrapper)
	// "go" is followed by white space and FUN; the call's "(" becomes ", " (or
	// nothing when there is no argument)
	sep := ", "
	if len(g.Call.Args) == 0 {
		sep = ""
	}
	in.replace(g.Call.Lparen, 1, sep)
	return true
}

func instrumentFile(p *pkgInfo, name string, f *ast.File, full bool) string {
	path := filepath.Join(p.dir, name)
	src, err := os.ReadFile(path)
	if err != nil {
		die("%v", err)
	}
	in := &instr{p: p, file: name, full: full, tf: fset.File(f.Pos()), astFile: f, src: src, keepImport: map[string]bool{}}
	in.findCaptured(f)
	for _, d := range f.Decls {
		if gd, ok := d.(*ast.GenDecl); ok && gd.Tok == token.VAR {
			// function literals in the initialiser of a package-level variable
			// (var f = func() … or var f = newF() built from closures) are code too
			for _, sp := range gd.Specs {
				if vs, ok := sp.(*ast.ValueSpec); ok && len(vs.Names) > 0 {
					for _, v := range vs.Values {
						in.walk(v, vs.Names[0].Name+".init")
					}
				}
			}
			continue
		}
		fd, ok := d.(*ast.FuncDecl)
		if !ok || fd.Body == nil {
			continue
		}
		fn := fd.Name.Name
		if fd.Recv != nil && len(fd.Recv.List) == 1 {
			fn = recvName(fd.Recv.List[0].Type) + "." + fd.Name.Name
		}
		if fn == "init" && fd.Recv == nil {
			// package initialisation runs before any hook can be installed
			continue
		}
		if fd.Doc != nil && strings.Contains(fd.Doc.Text()+commentLines(fd.Doc), "go:nosplit") {
			// inserted calls enlarge the frame of a function that must not grow
			// its stack; the linker may then refuse it
			continue
		}
		in.yieldAt(fd.Body.Lbrace+1, "entry", fn)
		in.stmts(fd.Body.List, fn)
	}
	// the import rides on the package clause line, so line numbers do not move
	in.insert(f.Name.End(), fmt.Sprintf("; import simrt__ %q", modPath+"/internal/simrt"))
	// apply from the end of the file backwards
	sort.SliceStable(in.edits, func(i, j int) bool {
		if in.edits[i].off != in.edits[j].off {
			return in.edits[i].off > in.edits[j].off
		}
		return in.edits[i].seq > in.edits[j].seq
	})
	out := append([]byte(nil), src...)
	for _, e := range in.edits {
		out = append(out[:e.off], append([]byte(e.text), out[e.off+e.del:]...)...)
	}
	out = append(out, []byte("\nvar _ = simrt__.Yield\n")...)
	for k := range in.keepImport {
		out = append(out, []byte("var _ = "+k+"\n")...)
	}
	if _, err := parser.ParseFile(token.NewFileSet(), name, out, 0); err != nil {
		os.WriteFile("/verif/.work/bad.go", out, 0o644)
		die("instrumented %s does not parse: %v", name, err)
	}
	return string(out)
}

// commentLines returns the raw text of a comment group (directives such as
// //go:nosplit are not part of CommentGroup.Text()).
func commentLines(g *ast.CommentGroup) string {
	var b strings.Builder
	for _, c := range g.List {
		b.WriteString(c.Text)
		b.WriteString("\n")
	}
	return b.String()
}

func recvName(e ast.Expr) string {
	switch t := e.(type) {
	case *ast.StarExpr:
		return recvName(t.X)
	case *ast.Ident:
		return t.Name
	case *ast.IndexExpr:
		return recvName(t.X)
	case *ast.IndexListExpr:
		return recvName(t.X)
	}
	return "?"
}

const simrtSrc = `// Package simrt is injected by the verification harness through go build -overlay.
// It does not exist in the repository.
package simrt

import (
	"runtime"
	"time"
)

// Hook, when non-nil, is called at every instrumented yield point.
var Hook func(site uint32)

// Pause, when non-nil, replaces time.Sleep(d) and runtime.Gosched() (d = 0) of
// the code under test: the caller offers the processor to the other tasks
// (simulated time: nobody waits for the real clock while another task can run).
var Pause func(d int64)

// Sleep stands in for time.Sleep in instrumented code.
func Sleep(d time.Duration) {
	if p := Pause; p != nil {
		p(int64(d))
		return
	}
	time.Sleep(d)
}

// Gosched stands in for runtime.Gosched in instrumented code.
func Gosched() {
	if p := Pause; p != nil {
		p(0)
		return
	}
	runtime.Gosched()
}

// Spawn, when non-nil, receives every goroutine the library starts.
var Spawn func(f func())

// Yield is a scheduling point. Inert when no hook is installed.
func Yield(site uint32) {
	if h := Hook; h != nil {
		h(site)
	}
}

// Go replaces the go statement in instrumented code.
func Go(f func()) {
	if s := Spawn; s != nil {
		s(f)
		return
	}
	go f()
}

// Global is one package-level variable of the code under test.
type Global struct {
	Name string
	Ptr  any // pointer to the variable
}

var globals []Global

// Register is called from generated init functions.
func Register(name string, ptr any) { globals = append(globals, Global{name, ptr}) }

// Captured is called right after the declaration of a local variable that a
// function literal captures. While the packages of the module are being
// initialised such a variable is recorded like a package-level one (a closure
// built during initialisation keeps it alive for the life of the process);
// once Globals has been asked for, calls return at once.
func Captured(name string, ptr any) {
	if sealed {
		return
	}
	// a function that runs many times during initialisation (building a table,
	// say) announces the same local again and again; those are per-call
	// variables of calls that are over. The first few instances are enough to
	// see state that a closure keeps for the life of the process.
	if capturedCount == nil {
		capturedCount = map[string]int{}
	}
	capturedCount[name]++
	if capturedCount[name] > 4 {
		return
	}
	globals = append(globals, Global{name + " (local variable captured by a closure built during package initialisation)", ptr})
}

var capturedCount map[string]int

var sealed bool

var lazies []string

// LazyInit is called at the start of a function passed to sync.OnceValue,
// sync.OnceValues or sync.OnceFunc. Running after package initialisation means
// that process-lifetime state is being created on first use.
func LazyInit(name string, bornDuringInit bool) {
	if sealed && bornDuringInit {
		lazies = append(lazies, name)
	}
}

// Born reports whether the packages of the module are still being initialised.
func Born() bool { return !sealed }

// Lazies lists the lazy initialisers that have run since Globals was taken.
func Lazies() []string { return lazies }

// Globals returns every registered package-level variable.
func Globals() []Global { sealed = true; return globals }
`

const accessorSrc = `// VerifGlobal describes one package-level variable.
type VerifGlobal = simrt__.Global

// VerifGlobals lists every package-level variable of every package of the module.
func VerifGlobals() []VerifGlobal { return simrt__.Globals() }

// VerifLazy lists the sync.OnceValue / OnceFunc initialisers that ran after start-up.
func VerifLazy() []string { return simrt__.Lazies() }

// VerifSetYieldHook installs the scheduler callback (nil uninstalls).
func VerifSetYieldHook(f func(uint32)) { simrt__.Hook = f }

// VerifSetPauseHook installs the time.Sleep / runtime.Gosched callback (nil uninstalls).
func VerifSetPauseHook(f func(int64)) { simrt__.Pause = f }

// VerifSetSpawnHook installs the goroutine-spawn callback (nil uninstalls).
func VerifSetSpawnHook(f func(func())) { simrt__.Spawn = f }
`
