// Package tricky exercises the constructs the instrumenter must rewrite
// without changing behaviour.
package tricky

import (
	"errors"
	"fmt"
	"io"
	"sync"

	"example.com/tricky/internal/sub"
)

// ErrX is a package-level variable.
var ErrX = errors.New("x")

var (
	mu    sync.Mutex
	table = map[string]int{"a": 1}
	once  sync.Once
)

type number interface{ ~int | ~int64 }

// Sum is generic.
func Sum[T number](xs ...T) (s T) {
	for _, x := range xs {
		s += x
	}
	return
}

type pair[K comparable, V any] struct {
	k K
	v V
}

func (p *pair[K, V]) Key() K { return p.k }

//go:noinline
func classify(v any) string {
	switch t := v.(type) {
	case nil:
		return "nil"
	case int, int64:
		return fmt.Sprint("int", t)
	case error:
		if errors.Is(t, ErrX) {
			return "errx"
		}
		fallthroughTest(1)
		return "err"
	default:
		return "other"
	}
}

func fallthroughTest(n int) (out int) {
	switch n {
	case 1:
		out++
		fallthrough
	case 2:
		out += 2
	case 3:
	default:
		out = -1
	}
	return out
}

type triple struct {
	a, b int
	c    [3]int
	next *triple
}

var sharedTriple triple

type named struct{ a, b int }

func (n named) String() string { return fmt.Sprint("n", n.a, n.b) }

// copies exercises multi-word copies in every form the instrumenter splits.
func copies() string {
	t := triple{a: 1, b: 2, c: [3]int{3, 4, 5}}
	u := t // define from a pure expression
	u.a = 7
	var v triple
	v = u // assign from a pure expression
	p := &v
	*p = triple{a: 9, b: v.b, c: v.c} // assign from a composite literal that reads the target
	w := &triple{a: 1, next: &triple{a: 2, b: 3}}
	*w = *w.next // source reachable from the target
	arr := [4]int{1, 2, 3, 4}
	brr := arr
	brr[0] = 8
	arr = brr
	sharedTriple = t
	if c := sharedTriple; c.a == 1 && c.b == 2 {
		t.b += c.c[0] - 3
	} else if d := sharedTriple; d.a == 5 {
		t.b = 0
	}
	q := sharedTriple
	// copies the splitter must leave alone
	var boxed fmt.Stringer
	boxed = named{a: 1, b: 2} // a struct assigned to an interface variable
	byKey := map[string]triple{}
	byKey["k"] = triple{a: 4, b: 5} // a map element
	{
		w := *w // the new name shadows the one on the right
		w.a = 100
		q.c[0] += w.a
	}
	if t := t; t.a == 1 { // shadowing in an init clause
		q.c[1] += t.b
	}
	return fmt.Sprint(t.a, u.a, v.a, v.b, v.c, w.a, w.b, arr, q.c, boxed, byKey["k"].b, ";")
}

var lazyTable = sync.OnceValue(func() []int { return []int{1, 2, 3} })

// onces uses sync.OnceValue at package level and per call.
func onces() string {
	local := sync.OnceValue(func() int { return len(lazyTable()) })
	f := sync.OnceFunc(func() { table["once"] = local() })
	f()
	f()
	return fmt.Sprint("once", local(), table["once"], ";")
}

type acc struct{ n int }

func (a *acc) add(wg *sync.WaitGroup, k int) { defer wg.Done(); a.n += k }

func sumInto(wg *sync.WaitGroup, out *int, xs ...int) {
	defer wg.Done()
	for _, x := range xs {
		*out += x
	}
}

// goArgs exercises go statements whose function value and arguments are
// evaluated at the statement, not when the goroutine starts.
func goArgs() string {
	var wg sync.WaitGroup
	var r [4]int
	chunk, out := []int{1, 2}, &r[0]
	wg.Add(4)
	go sumInto(&wg, out, chunk...)
	chunk, out = []int{10, 20, 30}, &r[1]
	go sumInto(&wg, out, chunk[0], chunk[1], chunk[2])
	a, b := &acc{}, &acc{}
	p := a
	go p.add(&wg, 5) // method value bound to a
	p = b
	k := 7
	go func(v int, w io.Writer) {
		defer wg.Done()
		r[2] = v
		fmt.Fprint(w, "")
	}(k, io.Discard)
	k = 8
	wg.Wait()
	return fmt.Sprint("go", r[0], r[1], r[2], a.n, b.n, k, ";")
}

// ifInits exercises if statements with init clauses: the instrumenter puts a
// yield between the init statement and the condition.
func ifInits(n int) string {
	out := ""
	x := n
	if x := x + 1; x > 2 { // shadows the outer x inside the statement only
		out += fmt.Sprint("a", x)
	} else if y, ok := table["a"]; ok && y == x-1 {
		out += fmt.Sprint("b", x, y)
	} else if f := func() int { x++; return x }; f() > 0 { // init holding a function literal
		out += fmt.Sprint("c", x, y)
	} else {
		out += fmt.Sprint("d", x, y)
	}
	out += fmt.Sprint(x) // the outer x again
	var err error
	if err = errors.New("e"); err != nil {
		out += err.Error()
	}
	if mu.Lock(); n >= 0 { // expression statement as init
		mu.Unlock()
	}
lbl:
	if n++; n < 3 {
		goto lbl
	}
	for i := 0; i < 2; i++ {
		if c := sharedTriple; c.a == 1 {
			out += "t"
			continue
		} else if i++; i > 5 {
			break
		}
		out += "u"
	}
	return out + fmt.Sprint(n, ";")
}

// Run drives everything and returns a digest.
func Run() string {
	res := copies() + ifInits(0) + ifInits(1) + ifInits(2) + onces() + goArgs()
outer:
	for i := 0; i < 4; i++ {
		for j := 0; j < 4; j++ {
			switch {
			case j == 2:
				continue outer
			case i == 3:
				break outer
			}
			res += fmt.Sprint(i, j, ";")
		}
	}
	i := 0
loop:
	if i < 3 {
		i++
		goto loop
	}
	res += fmt.Sprint("goto", i, ";")

	ch := make(chan int, 1)
	done := make(chan struct{})
	var wg sync.WaitGroup
	wg.Add(1)
	go func(n int) {
		defer wg.Done()
		ch <- n * 2
	}(21)
	go close(done)
	select {
	case <-done:
	}
	wg.Wait()
	select {
	case v := <-ch:
		res += fmt.Sprint("chan", v, ";")
	default:
		res += "empty;"
	}

	mu.Lock()
	table["b"] = Sum(1, 2, 3)
	mu.Unlock()
	once.Do(func() { table["c"] = 7 })
	defer func() {
		if r := recover(); r != nil {
			res += "recovered"
		}
	}()
	p := &pair[string, int]{"k", 1}
	f := p.Key
	res += f() + classify(nil) + classify(3) + classify(ErrX) + classify(errors.New("y")) + classify(1.5)
	res += fmt.Sprint(fallthroughTest(1), fallthroughTest(2), fallthroughTest(3), fallthroughTest(9))
	res += fmt.Sprint(table["b"], table["c"], sub.Twice(4))
	for k := range 3 {
		func() {
			if k == 1 {
				return
			}
			res += fmt.Sprint("r", k)
		}()
	}
	var arr [3]int
	for i := range arr {
		arr[i] = i * i
	}
	{
		x := 5
		res += fmt.Sprint(x, arr)
	}
	if v, ok := table["a"]; !ok {
		res += "missing"
	} else if v == 1 {
		res += "one"
	} else {
		res += "else"
	}
	return res
}
