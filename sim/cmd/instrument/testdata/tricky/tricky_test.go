package tricky

import "testing"

const want = "1 7 9 2 [3 4 5] 2 3 [8 2 3 4] [103 6 5] n1 2 5;c2 10ett3;b2 11ett3;a32ett3;once3 3;go3 60 7 5 0 8;0 0;0 1;1 0;1 1;2 0;2 1;goto3;chan42;knilint3errxerrother3 2 0 -16 7 8r0r25 [0 1 4]one"

func TestRun(t *testing.T) {
	if got := Run(); got != want {
		t.Fatalf("got %q\nwant %q", got, want)
	}
}
