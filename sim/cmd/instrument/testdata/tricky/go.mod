module example.com/tricky

go 1.22
