// automut lists small syntactic mutations of the library's sources (operator
// swaps, literal tweaks, negated conditions, deleted statements). It is part
// of the sensitivity harness (tools/automut.py), not of any check: the harness
// keeps the mutants that still compile and pass the repository's own tests and
// runs the registered checks against each of them.
package main

import (
	"encoding/json"
	"flag"
	"fmt"
	"go/ast"
	"go/parser"
	"go/token"
	"math/big"
	"os"
	"path/filepath"
	"sort"
	"strings"
)

type mutation struct {
	ID   int    `json:"id"`
	File string `json:"file"`
	Line int    `json:"line"`
	Off  int    `json:"off"`
	Del  int    `json:"del"`
	Text string `json:"text"`
	Desc string `json:"desc"`
	Func string `json:"func"`
}

var swap = map[token.Token]string{
	token.EQL: "!=", token.NEQ: "==", token.LSS: "<=", token.LEQ: "<", token.GTR: ">=", token.GEQ: ">",
	token.LAND: "||", token.LOR: "&&", token.ADD: "-", token.SUB: "+", token.MUL: "+", token.AND: "|", token.OR: "&",
	token.XOR: "&", token.SHL: ">>", token.SHR: "<<", token.AND_NOT: "&",
}

var swapAssign = map[token.Token]string{
	token.ADD_ASSIGN: "-=", token.SUB_ASSIGN: "+=", token.OR_ASSIGN: "&=", token.AND_ASSIGN: "|=", token.XOR_ASSIGN: "|=",
	token.SHL_ASSIGN: ">>=", token.SHR_ASSIGN: "<<=",
}

func main() {
	repo := flag.String("repo", "/repo", "module root")
	flag.Parse()
	var files []string
	filepath.Walk(*repo, func(p string, fi os.FileInfo, err error) error {
		if err != nil {
			return nil
		}
		if fi.IsDir() {
			if n := fi.Name(); p != *repo && (strings.HasPrefix(n, ".") || n == "tests" || n == "testdata" || n == "examples") {
				return filepath.SkipDir
			}
			return nil
		}
		if strings.HasSuffix(p, ".go") && !strings.HasSuffix(p, "_test.go") {
			files = append(files, p)
		}
		return nil
	})
	sort.Strings(files)
	var out []mutation
	for _, path := range files {
		src, err := os.ReadFile(path)
		if err != nil {
			continue
		}
		fset := token.NewFileSet()
		f, err := parser.ParseFile(fset, path, src, 0)
		if err != nil {
			continue
		}
		rel, _ := filepath.Rel(*repo, path)
		tf := fset.File(f.Pos())
		add := func(pos token.Pos, del int, text, desc, fn string) {
			out = append(out, mutation{ID: len(out), File: rel, Line: fset.Position(pos).Line, Off: tf.Offset(pos), Del: del, Text: text, Desc: desc, Func: fn})
		}
		for _, d := range f.Decls {
			fd, ok := d.(*ast.FuncDecl)
			if !ok || fd.Body == nil {
				continue
			}
			fn := fd.Name.Name
			ast.Inspect(fd.Body, func(n ast.Node) bool {
				switch t := n.(type) {
				case *ast.BinaryExpr:
					if r, ok := swap[t.Op]; ok {
						add(t.OpPos, len(t.Op.String()), r, fmt.Sprintf("%s -> %s", t.Op, r), fn)
					}
				case *ast.AssignStmt:
					if r, ok := swapAssign[t.Tok]; ok {
						add(t.TokPos, len(t.Tok.String()), r, fmt.Sprintf("%s -> %s", t.Tok, r), fn)
					}
					if t.Tok == token.ASSIGN && len(t.Lhs) == 1 {
						if _, isBlank := t.Lhs[0].(*ast.Ident); !isBlank || t.Lhs[0].(*ast.Ident).Name != "_" {
							add(t.Pos(), tf.Offset(t.End())-tf.Offset(t.Pos()), "{}", "assignment deleted", fn)
						}
					}
				case *ast.ExprStmt:
					if _, ok := t.X.(*ast.CallExpr); ok {
						add(t.Pos(), tf.Offset(t.End())-tf.Offset(t.Pos()), "{}", "call statement deleted", fn)
					}
				case *ast.IncDecStmt:
					r := "--"
					if t.Tok == token.DEC {
						r = "++"
					}
					add(t.TokPos, 2, r, fmt.Sprintf("%s -> %s", t.Tok, r), fn)
				case *ast.UnaryExpr:
					if t.Op == token.NOT {
						add(t.OpPos, 1, "", "! removed", fn)
					}
				case *ast.IfStmt:
					if t.Cond != nil {
						add(t.Cond.Pos(), 0, "!(", "condition negated", fn)
						out[len(out)-1].Text = "!(" // closing parenthesis is a second edit: encode as replacement of the whole condition
						c := string(src[tf.Offset(t.Cond.Pos()):tf.Offset(t.Cond.End())])
						out[len(out)-1].Del = len(c)
						out[len(out)-1].Text = "!(" + c + ")"
					}
				case *ast.BasicLit:
					if t.Kind == token.INT {
						v, ok := new(big.Int).SetString(strings.ReplaceAll(t.Value, "_", ""), 0)
						if !ok {
							return true
						}
						if v.BitLen() > 16 {
							w := new(big.Int).Xor(v, big.NewInt(1))
							add(t.Pos(), len(t.Value), "0x"+w.Text(16), "constant: lowest bit flipped", fn)
						} else {
							add(t.Pos(), len(t.Value), new(big.Int).Add(v, big.NewInt(1)).String(), "constant + 1", fn)
							if v.Sign() > 0 {
								add(t.Pos(), len(t.Value), new(big.Int).Sub(v, big.NewInt(1)).String(), "constant - 1", fn)
							}
						}
					}
				case *ast.ReturnStmt:
					if len(t.Results) == 1 {
						if id, ok := t.Results[0].(*ast.Ident); ok && (id.Name == "true" || id.Name == "false") {
							r := "true"
							if id.Name == "true" {
								r = "false"
							}
							add(id.Pos(), len(id.Name), r, "returned boolean flipped", fn)
						}
					}
				}
				return true
			})
		}
	}
	for i := range out {
		out[i].ID = i
	}
	json.NewEncoder(os.Stdout).Encode(out)
}
