package main

import (
	"bufio"
	"bytes"
	"encoding/json"
	"flag"
	"fmt"
	"os"
	"os/exec"
	"path/filepath"
	"sort"
	"strings"
	"sync"
	"time"

	"verifsim/work"
)

// bins describes the simulator builds available to the driver.
type binSet struct {
	dir string
}

func (b binSet) bin(build string) string {
	switch build {
	case "plain":
		return filepath.Join(b.dir, "gs-plain")
	case "yield-entry":
		return filepath.Join(b.dir, "gs-entry")
	case "yield-full":
		return filepath.Join(b.dir, "gs-full")
	}
	return ""
}

func (b binSet) sites(build string) string {
	switch build {
	case "yield-entry":
		return filepath.Join(b.dir, "entry", "sites.json")
	case "yield-full":
		return filepath.Join(b.dir, "full", "sites.json")
	}
	return ""
}

func (b binSet) has(build string) bool {
	_, err := os.Stat(b.bin(build))
	return err == nil
}

type knownFinding struct {
	prop, sig, text string
}

func loadKnown(path string) []knownFinding {
	f, err := os.Open(path)
	if err != nil {
		return nil
	}
	defer f.Close()
	var out []knownFinding
	sc := bufio.NewScanner(f)
	for sc.Scan() {
		line := strings.TrimSpace(sc.Text())
		if !strings.HasPrefix(line, "known:") {
			continue // comments, blank lines and "fixed:" entries suppress nothing
		}
		var k knownFinding
		rest := strings.Fields(strings.TrimPrefix(line, "known:"))
		var text []string
		for _, w := range rest {
			switch {
			case strings.HasPrefix(w, "property="):
				k.prop = strings.TrimPrefix(w, "property=")
			case strings.HasPrefix(w, "sig="):
				k.sig = strings.TrimPrefix(w, "sig=")
			default:
				text = append(text, w)
			}
		}
		k.text = strings.Join(text, " ")
		if k.prop != "" && k.sig != "" {
			out = append(out, k)
		}
	}
	return out
}

type plan struct {
	build string
	n     int
}

func fatal2(f string, a ...any) {
	fmt.Fprintf(os.Stderr, "groupsim drive: "+f+"\n", a...)
	os.Exit(2)
}

func drive(args []string) {
	fs := flag.NewFlagSet("drive", flag.ExitOnError)
	prop := fs.String("prop", "", "property id")
	tier := fs.String("tier", "quick", "quick | thorough")
	seed := fs.Uint64("seed", 1, "VERIF_SEED")
	dir := fs.String("bins", "", "directory with gs-plain, gs-entry[, gs-full] and their sites.json")
	evidence := fs.String("evidence", "", "evidence file to write")
	known := fs.String("known", "", "known-findings file")
	replays := fs.String("replays", "", "directory for replay files")
	budget := fs.Duration("budget", 0, "exploration budget (default by tier)")
	workers := fs.Int("workers", 16, "worker processes")
	maxRuns := fs.Uint64("max-runs", 0, "cap on runs per worker (0 = none)")
	fs.Parse(args)
	start := time.Now()
	b := binSet{*dir}
	if !b.has("plain") {
		fatal2("no gs-plain in %s", *dir)
	}
	if out, err := exec.Command(b.bin("plain"), "selftest-model").CombinedOutput(); err != nil {
		fatal2("oracle self-test failed: %v\n%s", err, out)
	}

	// ---- worker plan
	var plans []plan
	n := *workers
	bud := *budget
	// a library that starts goroutines of its own is always run under the
	// scheduler, also for the single-caller configurations
	libGo := false
	if st, err := work.LoadSites(filepath.Join(*dir, "plain", "sites.json")); err == nil && st.GoStmt > 0 {
		libGo = b.has("yield-entry")
	}
	switch *prop {
	case "C10", "C15":
		plans = []plan{{"plain", n}}
		if libGo {
			plans = []plan{{"yield-entry", n}}
		}
		if bud == 0 {
			bud = map[string]time.Duration{"quick": 40 * time.Second, "thorough": 30 * time.Minute}[*tier]
		}
	case "C16":
		if *tier == "thorough" && b.has("yield-full") {
			plans = []plan{{"yield-entry", n - n/2}, {"yield-full", n / 2}}
		} else {
			plans = []plan{{"yield-entry", n}}
		}
		if bud == 0 {
			bud = map[string]time.Duration{"quick": 60 * time.Second, "thorough": 30 * time.Minute}[*tier]
		}
	case "C18":
		if *tier == "thorough" && b.has("yield-full") {
			plans = []plan{{"plain", n / 2}, {"yield-entry", n / 4}, {"yield-full", n - n/2 - n/4}}
		} else {
			plans = []plan{{"plain", n / 2}, {"yield-entry", n - n/2}}
		}
		if libGo {
			plans = []plan{{"yield-entry", n}}
		}
		if bud == 0 {
			bud = map[string]time.Duration{"quick": 25 * time.Second, "thorough": 10 * time.Minute}[*tier]
		}
	default:
		fatal2("property %q is not claimed by this engine", *prop)
	}
	if bud == 0 {
		fatal2("unknown tier %q", *tier)
	}
	for _, p := range plans {
		if !b.has(p.build) {
			fatal2("build %s missing", p.build)
		}
	}
	if err := os.MkdirAll(*replays, 0o755); err != nil {
		fatal2("%v", err)
	}

	// ---- run the workers
	type job struct {
		build string
		from  int
	}
	var jobs []job
	total := 0
	for _, p := range plans {
		total += p.n
	}
	i := 0
	for _, p := range plans {
		for k := 0; k < p.n; k++ {
			jobs = append(jobs, job{p.build, i})
			i++
		}
	}
	outs := make([]*WorkerOut, len(jobs))
	errs := make([]error, len(jobs))
	var wg sync.WaitGroup
	for ji, j := range jobs {
		wg.Add(1)
		go func(ji int, j job) {
			defer wg.Done()
			raw := filepath.Join(*replays, fmt.Sprintf(".raw-%s-%d-%d.json", *prop, *seed, ji))
			os.Remove(raw)
			a := []string{"worker", "-prop", *prop, "-seed", fmt.Sprint(*seed), "-from", fmt.Sprint(j.from), "-stride", fmt.Sprint(total),
				"-budget", bud.String(), "-build", j.build, "-replay-out", raw, "-tier", *tier}
			if s := b.sites(j.build); s != "" {
				a = append(a, "-sites", s)
			}
			if *maxRuns > 0 {
				a = append(a, "-max-runs", fmt.Sprint(*maxRuns))
			}
			if ji < 3 {
				a = append(a, "-samples", "1")
			}
			deadline := time.Now().Add(bud)
			var acc *WorkerOut
			from := uint64(j.from)
			for {
				left := time.Until(deadline)
				if left < 50*time.Millisecond && acc != nil {
					break
				}
				if left < 50*time.Millisecond {
					left = 50 * time.Millisecond
				}
				args := append([]string{}, a...)
				args[6] = fmt.Sprint(from)
				args[10] = left.String()
				cmd := exec.Command(b.bin(j.build), args...)
				// a knob like any other: one worker in eight runs on a single P, one
				// on two (a library may choose a code path by runtime.GOMAXPROCS; the
				// executions themselves do not depend on it, see selftest determinism)
				switch ji % 8 {
				case 5:
					cmd.Env = append(os.Environ(), "GOMAXPROCS=1")
				case 6:
					cmd.Env = append(os.Environ(), "GOMAXPROCS=2")
				}
				var stdout, stderr bytes.Buffer
				cmd.Stdout, cmd.Stderr = &stdout, &stderr
				done := make(chan error, 1)
				if err := cmd.Start(); err != nil {
					errs[ji] = err
					return
				}
				go func() { done <- cmd.Wait() }()
				select {
				case err := <-done:
					if err != nil {
						if os.Getenv("VERIF_KEEP_RAW") != "" { // debugging aid
							os.WriteFile(filepath.Join(*replays, fmt.Sprintf(".stderr-%s-%d.txt", *prop, ji)), stderr.Bytes(), 0o644)
						}
						errs[ji] = fmt.Errorf("worker %d (%s): %v\n%s", ji, j.build, err, tail(stderr.String(), 2000))
						return
					}
				case <-time.After(left + 120*time.Second):
					cmd.Process.Kill()
					errs[ji] = fmt.Errorf("worker %d (%s): watchdog expired", ji, j.build)
					return
				}
				var wo WorkerOut
				if err := json.Unmarshal(stdout.Bytes(), &wo); err != nil {
					errs[ji] = fmt.Errorf("worker %d: bad output: %v", ji, err)
					return
				}
				if acc == nil {
					acc = &wo
				} else {
					mergeWorker(acc, &wo)
				}
				if wo.Violation != nil || wo.RestartFrom == 0 {
					break
				}
				acc.Restarts++
				from = wo.RestartFrom
				acc.SegFrom = from
				if *maxRuns > 0 && acc.Runs >= *maxRuns {
					break
				}
			}
			wo := *acc
			outs[ji] = &wo
		}(ji, j)
	}
	wg.Wait()
	for _, e := range errs {
		if e != nil {
			fatal2("%v", e)
		}
	}

	// ---- aggregate
	agg := work.NewStats()
	var runs, incon, detChecks, nonRepeat, restarts uint64
	distinct := map[uint64]bool{}
	policies := map[string]uint64{}
	builds := map[string]uint64{}
	var samples []*work.Run
	var inconWhy []string
	var globals []string
	for _, o := range outs {
		runs += o.Runs
		incon += o.Incon
		detChecks += o.DetChecks
		nonRepeat += o.NonRepeat
		restarts += o.Restarts
		addStats(agg, o.Stats)
		for _, h := range o.Distinct {
			distinct[h] = true
		}
		for k, v := range o.Policies {
			policies[k] += v
		}
		builds[o.Build] += o.Runs
		samples = append(samples, o.Samples...)
		inconWhy = append(inconWhy, o.InconWhy...)
		globals = o.Globals
	}
	// reach: yield sites hit, per instrumented build
	reach := map[string]any{}
	for _, build := range []string{"yield-entry", "yield-full"} {
		seen := map[uint32]bool{}
		all := 0
		for _, o := range outs {
			if o.Build == build {
				all = o.SitesAll
				for _, id := range o.SitesSeen {
					seen[id] = true
				}
			}
		}
		if all == 0 {
			continue
		}
		entry := map[string]any{"yield_sites": all, "yield_sites_reached": len(seen)}
		if st, err := work.LoadSites(b.sites(build)); err == nil {
			fnAll, fnHit := map[string]bool{}, map[string]bool{}
			for _, si := range st.Sites[1:] {
				fnAll[si.Func] = true
				if seen[si.ID] {
					fnHit[si.Func] = true
				}
			}
			var missed []string
			for f := range fnAll {
				if !fnHit[f] {
					missed = append(missed, f)
				}
			}
			sort.Strings(missed)
			var missedSites []string
			for _, si := range st.Sites[1:] {
				if !seen[si.ID] && len(missedSites) < 40 {
					missedSites = append(missedSites, fmt.Sprintf("%s:%d (%s)", si.File, si.Line, si.Func))
				}
			}
			entry["yield_sites_not_reached"] = missedSites
			entry["functions"] = len(fnAll)
			entry["functions_entered"] = len(fnHit)
			entry["functions_never_entered"] = missed
		}
		reach[build] = entry
	}
	if incon*20 > runs+20 {
		fatal2("%d of %d runs inconclusive: %v", incon, runs, inconWhy)
	}

	// ---- violations: shrink, confirm, classify
	kf := loadKnown(*known)
	type vrep struct {
		v      *work.Violation
		path   string
		knownT string
	}
	var reps []vrep
	var unconfirmed []string
	seenSig := map[string]bool{}
	nv := 0
	for ji, o := range outs {
		if o.Violation == nil {
			continue
		}
		nv++
		if seenSig[o.Violation.Sig] {
			os.Remove(o.ReplayFile)
			continue
		}
		seenSig[o.Violation.Sig] = true
		build := jobs[ji].build
		final := filepath.Join(*replays, fmt.Sprintf("%s-%d-%d.json", *prop, *seed, len(reps)))
		// the first report is minimised with the full budget; further, different
		// reports of the same check run get a short one (they are still confirmed
		// in a fresh process), and after four the rest is only counted
		shrinkFor := 25 * time.Second
		if len(reps) > 0 {
			shrinkFor = 6 * time.Second
		}
		if len(reps) >= 4 {
			os.Remove(o.ReplayFile)
			continue
		}
		v, err := shrinkAndConfirm(b, build, o.ReplayFile, final, shrinkFor)
		if os.Getenv("VERIF_KEEP_RAW") == "" { // debugging aid
			os.Remove(o.ReplayFile)
		}
		if err != nil {
			// the run alone does not fail in a fresh process: state the
			// pristine-state comparison cannot see may have been carried over from
			// earlier runs of the same worker. Re-execute the worker's segment.
			ss := &Session{Prop: *prop, Seed: *seed, From: o.SegFrom, Stride: uint64(total), Until: o.LastIdx, Build: build, Tier: *tier, Procs: o.Procs}
			sv, serr := runSession(b.bin(build), b.sites(build), ss)
			if serr == nil && sv != nil && sv.Sig == o.Violation.Sig {
				rf := ReplayFile{Session: ss, Violation: sv, Note: fmt.Sprintf("the violating run (index %d) fails only after the runs that precede it in the same process (indices %d, %d, ... step %d); replay with: ./check replay %s", ss.Until, ss.From, ss.From+ss.Stride, ss.Stride, final)}
				j, _ := json.MarshalIndent(rf, "", " ")
				if werr := os.WriteFile(final, j, 0o644); werr != nil {
					fatal2("%v", werr)
				}
				v, err = sv, nil
			}
		}
		if err != nil {
			unconfirmed = append(unconfirmed, fmt.Sprintf("worker %d (%s): %s: %v", ji, build, o.Violation, err))
			delete(seenSig, o.Violation.Sig)
			continue
		}
		r := vrep{v: v, path: final}
		for _, k := range kf {
			if k.prop == *prop && k.sig == v.Sig {
				r.knownT = k.text
			}
		}
		reps = append(reps, r)
	}

	// ---- evidence
	wall := time.Since(start).Seconds()
	unknown := 0
	for _, r := range reps {
		if r.knownT == "" {
			unknown++
		}
	}
	if len(samples) > 3 {
		samples = samples[:3]
	}
	var sampleAny []any
	for _, s := range samples {
		// samples are illustrations, not replay files: long lists (the recorded
		// schedule of a run has one entry per context switch) and long strings
		// are cut so that the evidence file stays small
		raw, _ := json.Marshal(s)
		var v any
		json.Unmarshal(raw, &v)
		sampleAny = append(sampleAny, trimSample(v))
	}
	if len(sampleAny) == 0 {
		sampleAny = append(sampleAny, "no non-trivial run completed")
	}
	rules := map[string]string{
		"C10": "each evaluation is one seeded single-task history (1-40 API calls over <=6 element and <=6 scalar variables, aliasing, failed operations) executed on the real library and on the big-integer model in lock-step, all variables observed after every call; non-trivial = at least 3 state-changing calls; distinct = distinct programme hash (operations, operands, buffers, entropy)",
		"C15": "each evaluation is one seeded single-task history whose byte arguments live in mprotect-guarded caller memory with a PRNG-chosen layout, every returned slice retained, freshness-checked and possibly scribbled on; non-trivial = at least one call taking a byte slice or one scribble, and >=2 state-changing calls; distinct = distinct programme hash",
		"C16": "each evaluation is one seeded concurrent run: 2-8 tasks over a write-protected shared pool, scheduled at AST-inserted yield points by a seeded policy (pct/walk/site/rr/serial); non-trivial = at least one context switch taken inside an API call; distinct = distinct (programme hash, schedule-signature hash) pair",
		"C18": "each evaluation is one entropy script (byte stream + short/zero/error events) served to 1-4 tasks calling Random; non-trivial = at least one retry, reduction, short read, zero read or source error actually occurred; distinct = distinct (programme, script) hash",
	}
	hours := wall / 3600
	cov := map[string]any{
		"evaluations":          runs,
		"distinct_nontrivial":  len(distinct),
		"rule":                 rules[*prop],
		"samples":              sampleAny,
		"runs_per_hour":        float64(runs) / hours,
		"seeds":                fmt.Sprintf("VERIF_SEED=%d, run indices 0..%d (per-run seed = mix(VERIF_SEED, index))", *seed, maxIdx(outs)),
		"api_calls_executed":   agg.Ops,
		"state_changing_calls": agg.StateOps,
		"failed_calls":         agg.FailedOps,
		"panicking_calls":      agg.PanicOps,
		"observations_checked": agg.Observes,
		"simulated_time_steps": agg.Steps,
		"context_switches":     agg.Switches,
		"in_call_switches":     agg.InOpSw,
		"faults_fired":         agg.Faults,
		"reach_probes":         compactProbes(agg.Probes),
		"op_kinds":             agg.OpKinds,
		"schedule_policies":    policies,
		"runs_per_build":       builds,
		"returned_slices_kept": agg.Retained,
		"entropy_reads":        agg.EntropyRd,
		"library_code_reached": reach,
		"determinism_rechecks": detChecks,
		"non_repeating_runs":   nonRepeat,
		"worker_restarts_for_pristine_library_state": restarts,
		"unconfirmed_reports_dropped":                len(unconfirmed),
		"inconclusive_runs":                          incon,
		"globals_monitored":                          globals,
		"components_real":                            []string{"every package of the module under test, built from /repo's working tree (uninstrumented for single-task runs, yield-instrumented for scheduled runs)", "crypto/sha256, math/big, io.ReadFull as the library uses them"},
		"components_stub":                            []string{"operating-system entropy source (scripted device behind crypto/rand.Reader)", "caller memory (mmap arena with guard pages)", "goroutine scheduler (seeded token-passing scheduler over inserted yield points)"},
		"oracle":                                     "big-integer reference model (affine chord-and-tangent group law, SEC1, RFC 9380 from the standard's text), self-validated against the 10 RFC vectors at start-up",
		"violations_found":                           nv,
		"distinct_violation_sig":                     len(reps),
	}
	ev := map[string]any{
		"property_id": *prop,
		"tier":        *tier,
		"seed":        *seed,
		"level":       "exploration",
		"coverage":    cov,
		"assumptions": []string{
			"sampling, not enumeration: a clean batch is evidence, not proof",
			"the Go compiler, runtime and standard library are trusted",
			"schedules are sequentially consistent interleavings at statement granularity in hand-written code and at function-entry (quick) or statement (thorough, half of the workers) granularity in generated code",
		},
		"wall_s":     wall,
		"violations": unknown,
	}
	if *evidence != "" {
		raw, _ := json.MarshalIndent(ev, "", " ")
		if err := os.MkdirAll(filepath.Dir(*evidence), 0o755); err != nil {
			fatal2("%v", err)
		}
		if err := os.WriteFile(*evidence, raw, 0o644); err != nil {
			fatal2("%v", err)
		}
	}

	fmt.Printf("groupsim: property=%s tier=%s seed=%d runs=%d distinct_nontrivial=%d steps=%d in_call_switches=%d wall=%.1fs\n",
		*prop, *tier, *seed, runs, len(distinct), agg.Steps, agg.InOpSw, wall)
	for _, r := range reps {
		if r.knownT != "" {
			fmt.Printf("KNOWN-FINDING: property=%s %s (sig=%s replay=%s)\n", *prop, r.knownT, r.v.Sig, r.path)
		}
	}
	for _, r := range reps {
		if r.knownT == "" {
			fmt.Printf("%s\n", r.v)
			fmt.Printf("VIOLATION property=%s replay=%s\n", *prop, r.path)
		}
	}
	if unknown > 0 {
		os.Exit(1)
	}
	if len(unconfirmed) > 0 && len(reps) == 0 {
		// something failed but nothing could be reproduced: neither a clean
		// bill nor a violation can be claimed
		fatal2("%d violation report(s) could not be confirmed by replay and none could: %s", len(unconfirmed), strings.Join(unconfirmed, " | "))
	}
}

// mergeWorker folds the output of a restarted worker into the accumulated one.
func mergeWorker(acc, w *WorkerOut) {
	acc.Runs += w.Runs
	acc.Incon += w.Incon
	acc.InconWhy = append(acc.InconWhy, w.InconWhy...)
	if len(acc.InconWhy) > 5 {
		acc.InconWhy = acc.InconWhy[:5]
	}
	acc.Violation, acc.ReplayFile = w.Violation, w.ReplayFile
	addStats(acc.Stats, w.Stats)
	acc.Distinct = append(acc.Distinct, w.Distinct...)
	for k, v := range w.Policies {
		acc.Policies[k] += v
	}
	acc.Samples = append(acc.Samples, w.Samples...)
	acc.WallS += w.WallS
	acc.DetChecks += w.DetChecks
	acc.NonRepeat += w.NonRepeat
	acc.LastIdx = w.LastIdx
	acc.SegFrom = w.SegFrom
	acc.SitesSeen = append(acc.SitesSeen, w.SitesSeen...)
	if w.SitesAll > 0 {
		acc.SitesAll = w.SitesAll
	}
	acc.Poisoned = acc.Poisoned || w.Poisoned
}

func maxIdx(outs []*WorkerOut) uint64 {
	var m uint64
	for _, o := range outs {
		if o.LastIdx > m {
			m = o.LastIdx
		}
	}
	return m
}

func compactProbes(p map[string]uint64) map[string]uint64 {
	out := map[string]uint64{}
	type kv struct {
		k string
		v uint64
	}
	var sw []kv
	for k, v := range p {
		if strings.HasPrefix(k, "switch_in:") {
			sw = append(sw, kv{k, v})
		} else {
			out[k] = v
		}
	}
	sort.Slice(sw, func(i, j int) bool { return sw[i].v > sw[j].v || (sw[i].v == sw[j].v && sw[i].k < sw[j].k) })
	out["switch_in:<distinct functions>"] = uint64(len(sw))
	for i, e := range sw {
		if i >= 40 {
			break
		}
		out[e.k] = e.v
	}
	return out
}

func tail(s string, n int) string {
	if len(s) > n {
		return s[len(s)-n:]
	}
	return s
}

// trimSample bounds the size of a sample: lists keep their first 24 entries,
// strings their first 400 characters; what was cut is stated in place.
func trimSample(v any) any {
	switch t := v.(type) {
	case map[string]any:
		for k, e := range t {
			t[k] = trimSample(e)
		}
		return t
	case []any:
		n := len(t)
		if n > 24 {
			t = append(t[:24:24], fmt.Sprintf("... %d more entries cut from this sample", n-24))
		}
		for i := range t {
			t[i] = trimSample(t[i])
		}
		return t
	case string:
		if len(t) > 400 {
			return t[:400] + fmt.Sprintf("... (%d more characters cut from this sample)", len(t)-400)
		}
		return t
	}
	return v
}
