package main

import (
	"bytes"
	"encoding/json"
	"fmt"
	"os"
	"os/exec"
	"path/filepath"
	"strings"
	"sync"
	"time"

	"verifsim/sched"
	"verifsim/work"
)

type shrinker struct {
	bin, sites string
	sig        string
	tmp        string
	deadline   time.Time
	tried      int
	maxTries   int
	n          int
}

// try replays a candidate in a fresh process and reports whether the same
// violation class (signature) fires.
func (s *shrinker) try(run *work.Run, slot int) (bool, *work.Violation) {
	path := filepath.Join(s.tmp, fmt.Sprintf("cand-%d.json", slot))
	raw, _ := json.Marshal(ReplayFile{Run: run})
	if err := os.WriteFile(path, raw, 0o644); err != nil {
		return false, nil
	}
	a := []string{"replay", "-file", path}
	if s.sites != "" {
		a = append(a, "-sites", s.sites)
	}
	cmd := exec.Command(s.bin, a...)
	var out bytes.Buffer
	cmd.Stdout = &out
	done := make(chan error, 1)
	if err := cmd.Start(); err != nil {
		return false, nil
	}
	go func() { done <- cmd.Wait() }()
	select {
	case <-done:
	case <-time.After(15 * time.Second):
		cmd.Process.Kill()
		return false, nil
	}
	if cmd.ProcessState == nil || cmd.ProcessState.ExitCode() != 1 {
		return false, nil
	}
	txt := out.String()
	i := strings.LastIndex(txt, "SIG ")
	if i < 0 {
		return false, nil
	}
	sig := strings.TrimSpace(txt[i+4:])
	if sig != s.sig {
		return false, nil
	}
	var v work.Violation
	if err := json.Unmarshal([]byte(txt[:i]), &v); err != nil {
		return false, nil
	}
	return true, &v
}

// firstOKn evaluates candidates in parallel (8 at a time, built lazily) and
// returns the first (in order) that reproduces, or nil. n is the number of
// candidates, gen builds the i-th (nil = skip).
func (s *shrinker) firstOKn(n int, gen func(i int) *work.Run) *work.Run {
	const par = 8
	for base := 0; base < n; base += par {
		if time.Now().After(s.deadline) || s.tried >= s.maxTries {
			return nil
		}
		end := min(base+par, n)
		cands := make([]*work.Run, end-base)
		ok := make([]bool, end-base)
		var wg sync.WaitGroup
		for i := base; i < end; i++ {
			cands[i-base] = gen(i)
			if cands[i-base] == nil {
				continue
			}
			wg.Add(1)
			go func(i int) {
				defer wg.Done()
				ok[i-base], _ = s.try(cands[i-base], i-base)
			}(i)
		}
		wg.Wait()
		s.tried += end - base
		for i, o := range ok {
			if o {
				return cands[i]
			}
		}
	}
	return nil
}

func (s *shrinker) firstOK(cands []*work.Run) int {
	r := s.firstOKn(len(cands), func(i int) *work.Run { return cands[i] })
	for i, c := range cands {
		if c == r && r != nil {
			return i
		}
	}
	return -1
}

func cloneRun(r *work.Run) *work.Run {
	raw, _ := json.Marshal(r)
	var c work.Run
	json.Unmarshal(raw, &c)
	return &c
}

func dropTask(r *work.Run, t int) *work.Run {
	c := cloneRun(r)
	c.Tasks = append(c.Tasks[:t:t], c.Tasks[t+1:]...)
	var sw []sched.Switch
	for _, s := range c.Switches {
		if s.To == t {
			continue
		}
		if s.To > t {
			s.To--
		}
		if s.From > t {
			s.From--
		}
		sw = append(sw, s)
	}
	c.Switches = sw
	return c
}

func dropOps(r *work.Run, task, from, to int) *work.Run {
	c := cloneRun(r)
	if task < 0 {
		c.Setup = append(c.Setup[:from:from], c.Setup[to:]...)
	} else {
		c.Tasks[task] = append(c.Tasks[task][:from:from], c.Tasks[task][to:]...)
	}
	return c
}

func opsOf(r *work.Run, task int) []work.Op {
	if task < 0 {
		return r.Setup
	}
	return r.Tasks[task]
}

func (s *shrinker) shrink(run *work.Run) *work.Run {
	cur := run
	improved := true
	for improved && time.Now().Before(s.deadline) {
		improved = false
		// 1. drop tasks
		for t := len(cur.Tasks) - 1; t >= 0 && len(cur.Tasks) > 1; t-- {
			if s.firstOK([]*work.Run{dropTask(cur, t)}) == 0 {
				cur = dropTask(cur, t)
				improved = true
			}
		}
		// 2. drop operations, large chunks first, from the end
		for task := len(cur.Tasks) - 1; task >= -1; task-- {
			for chunk := len(opsOf(cur, task)); chunk >= 1; chunk /= 2 {
				for {
					ops := opsOf(cur, task)
					n := len(ops) / chunk
					if n == 0 {
						break
					}
					base := cur
					got := s.firstOKn(n, func(i int) *work.Run {
						end := len(ops) - i*chunk
						return dropOps(base, task, end-chunk, end)
					})
					if got == nil {
						break
					}
					cur = got
					improved = true
				}
			}
		}
		// 3. drop preemptions (forced decisions stay): all at once, then chunks
		if len(cur.Switches) > 0 {
			dropSw := func(base *work.Run, from, to int) *work.Run {
				c := cloneRun(base)
				var ks []sched.Switch
				removed := 0
				for i, sw := range c.Switches {
					if i >= from && i < to && !sw.Forced() {
						removed++
						continue
					}
					ks = append(ks, sw)
				}
				if removed == 0 {
					return nil
				}
				c.Switches = ks
				return c
			}
			if c := dropSw(cur, 0, len(cur.Switches)); c != nil && s.firstOK([]*work.Run{c}) == 0 {
				cur = c
				improved = true
			}
			for chunk := len(cur.Switches) / 2; chunk >= 1; chunk /= 2 {
				for {
					base := cur
					n := len(base.Switches) / chunk
					if n == 0 {
						break
					}
					got := s.firstOKn(n, func(i int) *work.Run {
						end := len(base.Switches) - i*chunk
						return dropSw(base, end-chunk, end)
					})
					if got == nil {
						break
					}
					cur = got
					improved = true
				}
			}
		}
		// 4. entropy: drop events, then cut the stream
		for i := len(cur.Entropy.Events) - 1; i >= 0; i-- {
			c := cloneRun(cur)
			c.Entropy.Events = append(c.Entropy.Events[:i:i], c.Entropy.Events[i+1:]...)
			if s.firstOK([]*work.Run{c}) == 0 {
				cur = c
				improved = true
			}
		}
		for cur.Entropy.Rep != nil {
			// the long run of rejected blocks: drop it, else halve it
			c := cloneRun(cur)
			cut := 32 * c.Entropy.Rep.Count
			at := c.Entropy.Rep.At
			c.Entropy.Rep = nil
			c.Entropy.Stream = nil
			for i := range c.Entropy.Events {
				if c.Entropy.Events[i].Off >= at+cut {
					c.Entropy.Events[i].Off -= cut
				}
			}
			if s.firstOK([]*work.Run{c}) == 0 {
				cur = c
				improved = true
				break
			}
			if cur.Entropy.Rep.Count < 2 {
				break
			}
			c = cloneRun(cur)
			half := c.Entropy.Rep.Count / 2
			c.Entropy.Rep.Count -= half
			c.Entropy.Stream = nil
			for i := range c.Entropy.Events {
				if c.Entropy.Events[i].Off >= at+cut {
					c.Entropy.Events[i].Off -= 32 * half
				}
			}
			if s.firstOK([]*work.Run{c}) != 0 {
				break
			}
			cur = c
			improved = true
		}
		if cur.Entropy.MaxChunk > 0 {
			c := cloneRun(cur)
			c.Entropy.MaxChunk = 0
			if s.firstOK([]*work.Run{c}) == 0 {
				cur = c
				improved = true
			}
		}
		for n := len(cur.Entropy.Hex) / 64; n > 0; n-- {
			c := cloneRun(cur)
			c.Entropy.Hex = c.Entropy.Hex[:64*(n-1)]
			c.Entropy.Stream = nil
			if s.firstOK([]*work.Run{c}) != 0 {
				break
			}
			cur = c
			improved = true
		}
		// 5. observation scope
		if cur.ObsAll {
			c := cloneRun(cur)
			c.ObsAll = false
			if s.firstOK([]*work.Run{c}) == 0 {
				cur = c
				improved = true
			}
		}
	}
	// cosmetic: blank unreferenced backings
	used := map[int]bool{}
	for task := -1; task < len(cur.Tasks); task++ {
		for _, o := range opsOf(cur, task) {
			for _, b := range o.B {
				if !b.Nil && b.Ret == 0 {
					used[b.B] = true
				}
			}
		}
	}
	c := cloneRun(cur)
	for i := range c.Backings {
		if !used[i] {
			c.Backings[i] = work.Backing{Note: "unused"}
		}
	}
	if s.firstOK([]*work.Run{c}) == 0 {
		cur = c
	}
	return cur
}

// shrinkAndConfirm minimises the raw failing run, writes the replay file and
// confirms it in a fresh process.
func shrinkAndConfirm(b binSet, build, rawPath, finalPath string, budget time.Duration) (*work.Violation, error) {
	raw, err := os.ReadFile(rawPath)
	if err != nil {
		return nil, err
	}
	var rf ReplayFile
	if err := json.Unmarshal(raw, &rf); err != nil || rf.Run == nil || rf.Violation == nil {
		return nil, fmt.Errorf("bad raw replay file %s", rawPath)
	}
	tmp, err := os.MkdirTemp(filepath.Dir(finalPath), ".shrink-")
	if err != nil {
		return nil, err
	}
	defer os.RemoveAll(tmp)
	s := &shrinker{bin: b.bin(build), sites: b.sites(build), sig: rf.Violation.Sig, tmp: tmp, deadline: time.Now().Add(budget), maxTries: 1200}
	rf.Run.UseSwitches = len(rf.Run.Switches) > 0
	rf.Run.Entropy.Stream = nil
	ok, _ := s.try(rf.Run, 0)
	if !ok {
		return nil, fmt.Errorf("the raw run does not reproduce %q in a fresh process", s.sig)
	}
	before := countOps(rf.Run)
	small := s.shrink(rf.Run)
	ok, v := s.try(small, 0)
	if !ok {
		return nil, fmt.Errorf("the minimised run does not reproduce %q", s.sig)
	}
	out := ReplayFile{Run: small, Violation: v, Note: fmt.Sprintf("build=%s; minimised from %d to %d operations, %d to %d recorded switches, in %d candidate replays; replay with: ./check replay %s",
		build, before, countOps(small), len(rf.Run.Switches), len(small.Switches), s.tried, finalPath)}
	j, _ := json.MarshalIndent(out, "", " ")
	if err := os.WriteFile(finalPath, j, 0o644); err != nil {
		return nil, err
	}
	return v, nil
}

func countOps(r *work.Run) int {
	n := len(r.Setup)
	for _, t := range r.Tasks {
		n += len(t)
	}
	return n
}
