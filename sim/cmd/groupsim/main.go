// Command groupsim is the simulator binary. It is built against the current
// working tree of the repository (with the generated accessor overlay, and for
// the scheduled configurations the yield-instrumented overlay).
//
//	groupsim worker  -prop C10 -seed S -from i -stride n -budget 60s ...   explore
//	groupsim replay  -file run.json                                        re-execute one explicit run
//	groupsim selftest-model                                                oracle self-validation
//
// Exit status of replay: 0 no violation, 1 violation (details on stdout as
// JSON), 2 inconclusive / harness trouble.
package main

import (
	"bytes"
	"encoding/json"
	"flag"
	"fmt"
	"hash/fnv"
	"os"
	"os/exec"
	"runtime"
	"sort"
	"time"

	"verifsim/arena"
	"verifsim/model"
	"verifsim/prng"
	"verifsim/sched"
	"verifsim/work"
)

func main() {
	if len(os.Args) < 2 {
		fmt.Fprintln(os.Stderr, "usage: groupsim worker|replay|selftest-model ...")
		os.Exit(2)
	}
	switch os.Args[1] {
	case "worker":
		worker(os.Args[2:])
	case "replay":
		replay(os.Args[2:])
	case "drive":
		drive(os.Args[2:])
	case "selftest-model":
		r := prng.New(12345)
		if err := model.Selftest(r.U64); err != nil {
			fmt.Fprintln(os.Stderr, "model selftest failed:", err)
			os.Exit(2)
		}
		fmt.Println("model selftest ok")
	default:
		fmt.Fprintln(os.Stderr, "unknown subcommand", os.Args[1])
		os.Exit(2)
	}
}

// WorkerOut is what a worker prints (one JSON document).
type WorkerOut struct {
	Prop       string            `json:"prop"`
	Build      string            `json:"build"`
	Procs      int               `json:"gomaxprocs"`
	Runs       uint64            `json:"runs"`
	Incon      uint64            `json:"inconclusive"`
	InconWhy   []string          `json:"inconclusive_why,omitempty"`
	Violation  *work.Violation   `json:"violation,omitempty"`
	ReplayFile string            `json:"replay_file,omitempty"`
	Stats      *work.Stats       `json:"stats"`
	Distinct   []uint64          `json:"distinct"`
	Policies   map[string]uint64 `json:"policies"`
	Samples    []*work.Run       `json:"samples,omitempty"`
	WallS      float64           `json:"wall_s"`
	DetChecks  uint64            `json:"determinism_rechecks"`
	DetFail    string            `json:"determinism_failure,omitempty"`
	NonRepeat  uint64            `json:"non_repeating_runs,omitempty"`
	Globals    []string          `json:"globals"`
	FirstIdx   uint64            `json:"first_index"`
	LastIdx    uint64            `json:"last_index"`
	Hashes     []string          `json:"hashes,omitempty"`
	Poisoned   bool              `json:"poisoned,omitempty"`
	// RestartFrom > 0: the library's package-level state no longer equals its
	// start-up value (or goroutines are stuck in it); the driver continues the
	// index sequence in a fresh process so that every run starts from a
	// pristine library, exactly as its replay will.
	RestartFrom uint64 `json:"restart_from,omitempty"`
	Restarts    uint64 `json:"restarts,omitempty"`
	SegFrom     uint64 `json:"segment_from"`
	// SitesSeen: yield sites reached by this worker's runs (instrumented builds)
	SitesSeen []uint32 `json:"sites_seen,omitempty"`
	SitesAll  int      `json:"sites_all,omitempty"`
}

func progHash(run *work.Run) uint64 {
	h := fnv.New64a()
	enc := json.NewEncoder(h)
	enc.Encode(run.Setup)
	enc.Encode(run.Tasks)
	enc.Encode(run.Backings)
	enc.Encode(run.Entropy.Hex)
	enc.Encode(run.Entropy.Events)
	enc.Encode(run.Entropy.MaxChunk)
	return h.Sum64()
}

func nontrivial(prop string, st *work.Stats) bool {
	switch prop {
	case "C10":
		return st.StateOps >= 3
	case "C15":
		mem := st.Scribbles
		for k, v := range st.OpKinds {
			switch k {
			case "e.h2g", "e.e2g", "s.h2s", "e.decode", "e.decodec", "e.decodeu", "e.unmarshal", "s.decode", "s.unmarshal":
				mem += v
			}
		}
		return mem >= 1 && st.StateOps >= 2
	case "C16":
		return st.InOpSw >= 1
	case "C18":
		for k, v := range st.Faults {
			if v > 0 && len(k) > 8 && k[:8] == "entropy_" {
				return true
			}
		}
		for k, v := range st.Probes {
			if v > 0 && len(k) > 7 && k[:7] == "random_" {
				return true
			}
		}
		return false
	}
	return false
}

func addStats(dst, src *work.Stats) {
	dst.Ops += src.Ops
	dst.StateOps += src.StateOps
	dst.FailedOps += src.FailedOps
	dst.PanicOps += src.PanicOps
	dst.Observes += src.Observes
	dst.Steps += src.Steps
	dst.Switches += src.Switches
	dst.InOpSw += src.InOpSw
	dst.Retained += src.Retained
	dst.Scribbles += src.Scribbles
	dst.EntropyRd += src.EntropyRd
	for k, v := range src.Faults {
		dst.Faults[k] += v
	}
	for k, v := range src.Probes {
		dst.Probes[k] += v
	}
	for k, v := range src.OpKinds {
		dst.OpKinds[k] += v
	}
	for k, v := range src.Layouts {
		dst.Layouts[k] += v
	}
}

// scheduled turns a single-task run into a scheduled one: used when the library
// starts goroutines of its own, so that their interleaving with the caller is
// decided by the simulator and replays.
func scheduled(run *work.Run, build string, seed, idx uint64) *work.Run {
	if build == "plain" {
		return run
	}
	r := prng.New(prng.Mix(seed, idx) ^ 0x5c4ed01e)
	run.Build = build
	switch r.N(3) {
	case 0:
		run.Sched = sched.Spec{Policy: "pct", D: 1 + r.N(4)}
	case 1:
		run.Sched = sched.Spec{Policy: "walk", P: 0.0005 + 0.2*r.F()*r.F()}
	default:
		run.Sched = sched.Spec{Policy: "rr", K: uint64(1 + r.N(400))}
	}
	return run
}

func generate(prop string, seed, idx uint64, build string, sites *work.SiteTable) *work.Run {
	switch prop {
	case "C10":
		return scheduled(work.GenC10(seed, idx), build, seed, idx)
	case "C15":
		return scheduled(work.GenC15(seed, idx), build, seed, idx)
	case "C16":
		var fs, hot, shared []string
		if sites != nil {
			fs = sites.Funcs()
			hot = sites.HotFuncs
			shared = sites.SharedHot
		}
		return work.GenC16(seed, idx, build, fs, hot, shared)
	case "C18":
		return work.GenC18(seed, idx, build)
	}
	fmt.Fprintln(os.Stderr, "unknown property", prop)
	os.Exit(2)
	return nil
}

func loadSites(path string) *work.SiteTable {
	if path == "" {
		return nil
	}
	t, err := work.LoadSites(path)
	if err != nil {
		fmt.Fprintln(os.Stderr, "sites:", err)
		os.Exit(2)
	}
	return t
}

func worker(args []string) {
	fs := flag.NewFlagSet("worker", flag.ExitOnError)
	prop := fs.String("prop", "", "property id")
	seed := fs.Uint64("seed", 1, "VERIF_SEED")
	from := fs.Uint64("from", 0, "first run index")
	stride := fs.Uint64("stride", 1, "index stride")
	maxRuns := fs.Uint64("max-runs", 1<<62, "stop after this many runs")
	budget := fs.Duration("budget", 10*time.Second, "wall-clock budget")
	build := fs.String("build", "plain", "which build this binary is: plain | yield-entry | yield-full")
	sitesPath := fs.String("sites", "", "sites.json of this build")
	replayOut := fs.String("replay-out", "", "where to write the raw replay file of a violation")
	nsamples := fs.Int("samples", 0, "number of sample runs to include in the output")
	hashes := fs.Bool("hashes", false, "emit per-run trace hashes (determinism self-test)")
	until := fs.Uint64("until", 0, "session replay: ignore the budget and stop after executing this run index")
	tier := fs.String("tier", "quick", "quick | thorough (thorough widens the generation bounds)")
	fs.Parse(args)
	work.Deep = *tier == "thorough"
	if *until > 0 {
		*budget = 24 * time.Hour
	}

	sites := loadSites(*sitesPath)
	start := time.Now()
	ar, err := arena.New(1024)
	if err != nil {
		fmt.Fprintln(os.Stderr, err)
		os.Exit(2)
	}
	va, err := arena.NewVars(32)
	if err != nil {
		fmt.Fprintln(os.Stderr, err)
		os.Exit(2)
	}
	g := work.CaptureGlobals()
	out := &WorkerOut{Prop: *prop, Build: *build, Procs: runtime.GOMAXPROCS(0), Stats: work.NewStats(), Policies: map[string]uint64{}, Globals: g.Names(), FirstIdx: *from, SegFrom: *from}
	distinct := map[uint64]bool{}
	detR := prng.New(prng.Mix(*seed, 0xde7) ^ *from)

	for idx := *from; out.Runs < *maxRuns; idx += *stride {
		if time.Since(start) > *budget || (*until > 0 && idx > *until) {
			break
		}
		run := generate(*prop, *seed, idx, *build, sites)
		run.Procs = runtime.GOMAXPROCS(0)
		res := work.Exec(run, ar, va, g, sites)
		out.Runs++
		out.LastIdx = idx
		if res.Incon != nil {
			out.Incon++
			if len(out.InconWhy) < 5 {
				out.InconWhy = append(out.InconWhy, fmt.Sprintf("run %d: %v", idx, res.Incon))
			}
			if res.Poisoned {
				out.Poisoned = true
				out.RestartFrom = idx + *stride
				break
			}
			if _, ok := g.CheckDeep(); !ok {
				out.RestartFrom = idx + *stride
				break
			}
			continue
		}
		ph := progHash(run)
		res.Stats.ProgHash = ph
		addStats(out.Stats, res.Stats)
		out.Policies[run.Sched.Policy]++
		if *hashes {
			out.Hashes = append(out.Hashes, fmt.Sprintf("%d:%016x:%016x:%016x:%016x:%d", idx, ph, res.Stats.TraceHash, res.Stats.SchedHash, res.Stats.ObsHash, res.Stats.Steps))
		}
		if res.Violation != nil {
			out.Violation = res.Violation
			if *replayOut != "" {
				run.UseSwitches = len(run.Switches) > 0
				raw, _ := json.MarshalIndent(map[string]any{"run": run, "violation": res.Violation}, "", " ")
				if err := os.WriteFile(*replayOut, raw, 0o644); err != nil {
					fmt.Fprintln(os.Stderr, err)
					os.Exit(2)
				}
				out.ReplayFile = *replayOut
			}
			break
		}
		if nontrivial(*prop, res.Stats) {
			distinct[ph^res.Stats.SchedHash*0x9e3779b97f4a7c15] = true
		}
		if len(out.Samples) < *nsamples && nontrivial(*prop, res.Stats) {
			cp := *run
			cp.Entropy.Stream = nil
			out.Samples = append(out.Samples, &cp)
		}
		if _, ok := g.CheckDeep(); !ok || res.Poisoned {
			out.RestartFrom = idx + *stride
			break
		}
		// in-process determinism re-check on ~2% of the runs
		if detR.P(0.02) {
			run2 := generate(*prop, *seed, idx, *build, sites)
			res2 := work.Exec(run2, ar, va, g, sites)
			out.DetChecks++
			if progHash(run2) != ph {
				// the generator itself is not a function of (seed, index): harness fault
				out.DetFail = fmt.Sprintf("run %d: generation did not repeat", idx)
				break
			}
			if res2.Incon != nil || res2.Violation != nil || res2.Stats.TraceHash != res.Stats.TraceHash || res2.Stats.ObsHash != res.Stats.ObsHash || res2.Stats.Steps != res.Stats.Steps || res2.Stats.Observes != res.Stats.Observes {
				// the same explicit run did not repeat inside this process: the
				// library carries state from call to call that the package-state
				// comparison does not see. Not a verdict; continue in a fresh process
				// so that every run still starts from a pristine library.
				out.NonRepeat++
				out.RestartFrom = idx + *stride
				break
			}
		}
	}
	for h := range distinct {
		out.Distinct = append(out.Distinct, h)
	}
	sort.Slice(out.Distinct, func(i, j int) bool { return out.Distinct[i] < out.Distinct[j] })
	out.WallS = time.Since(start).Seconds()
	if sites != nil && len(sites.Sites) > 1 {
		out.SitesAll = len(sites.Sites) - 1
		for i, b := range sites.Seen {
			if b {
				out.SitesSeen = append(out.SitesSeen, uint32(i))
			}
		}
	}
	enc := json.NewEncoder(os.Stdout)
	if err := enc.Encode(out); err != nil {
		fmt.Fprintln(os.Stderr, err)
		os.Exit(2)
	}
	if out.DetFail != "" {
		os.Exit(2)
	}
}

// ReplayFile is the on-disk format of a violation.
// Session describes a replay that needs more than one run: the violating run
// only fails after the runs that preceded it in the same process (state hidden
// inside the library that the pristine-state comparison cannot see).
type Session struct {
	Prop   string `json:"prop"`
	Seed   uint64 `json:"seed"`
	From   uint64 `json:"from"`
	Stride uint64 `json:"stride"`
	Until  uint64 `json:"until"`
	Build  string `json:"build"`
	Tier   string `json:"tier,omitempty"`
	Procs  int    `json:"gomaxprocs,omitempty"`
}

type ReplayFile struct {
	Session   *Session        `json:"session,omitempty"`
	Run       *work.Run       `json:"run"`
	Violation *work.Violation `json:"violation,omitempty"`
	Note      string          `json:"note,omitempty"`
}

func replay(args []string) {
	fs := flag.NewFlagSet("replay", flag.ExitOnError)
	file := fs.String("file", "", "replay file")
	sitesPath := fs.String("sites", "", "sites.json of this build")
	quiet := fs.Bool("quiet", false, "print only the violation signature")
	fs.Parse(args)
	raw, err := os.ReadFile(*file)
	if err != nil {
		fmt.Fprintln(os.Stderr, err)
		os.Exit(2)
	}
	var rf ReplayFile
	if err := json.Unmarshal(raw, &rf); err != nil || (rf.Run == nil && rf.Session == nil) {
		fmt.Fprintln(os.Stderr, "bad replay file:", err)
		os.Exit(2)
	}
	if rf.Session != nil {
		v, err := runSession(os.Args[0], *sitesPath, rf.Session)
		switch {
		case err != nil:
			fmt.Fprintln(os.Stderr, err)
			fmt.Println("INCONCLUSIVE")
			os.Exit(2)
		case v == nil:
			fmt.Println("OK")
			return
		}
		j, _ := json.MarshalIndent(v, "", " ")
		fmt.Println(string(j))
		fmt.Println("SIG " + v.Sig)
		os.Exit(1)
	}
	if rf.Run.Procs > 0 {
		runtime.GOMAXPROCS(rf.Run.Procs)
	}
	sites := loadSites(*sitesPath)
	ar, err := arena.New(1024)
	if err != nil {
		fmt.Fprintln(os.Stderr, err)
		os.Exit(2)
	}
	va, err := arena.NewVars(32)
	if err != nil {
		fmt.Fprintln(os.Stderr, err)
		os.Exit(2)
	}
	g := work.CaptureGlobals()
	res := work.Exec(rf.Run, ar, va, g, sites)
	if res.Incon != nil {
		if !*quiet {
			fmt.Fprintln(os.Stderr, res.Incon)
		}
		fmt.Println("INCONCLUSIVE")
		os.Exit(2)
	}
	if res.Violation == nil {
		fmt.Println("OK")
		return
	}
	if *quiet {
		fmt.Println("SIG " + res.Violation.Sig)
	} else {
		j, _ := json.MarshalIndent(res.Violation, "", " ")
		fmt.Println(string(j))
		fmt.Println("SIG " + res.Violation.Sig)
	}
	os.Exit(1)
}

// runSession re-executes a worker segment in a fresh process and returns the
// violation it ends with, if any.
func runSession(bin, sites string, ss *Session) (*work.Violation, error) {
	a := []string{"worker", "-prop", ss.Prop, "-seed", fmt.Sprint(ss.Seed), "-from", fmt.Sprint(ss.From), "-stride", fmt.Sprint(ss.Stride),
		"-until", fmt.Sprint(ss.Until), "-build", ss.Build}
	if ss.Tier != "" {
		a = append(a, "-tier", ss.Tier)
	}
	if sites != "" {
		a = append(a, "-sites", sites)
	}
	cmd := exec.Command(bin, a...)
	if ss.Procs > 0 {
		cmd.Env = append(os.Environ(), fmt.Sprintf("GOMAXPROCS=%d", ss.Procs))
	}
	var stdout, stderr bytes.Buffer
	cmd.Stdout, cmd.Stderr = &stdout, &stderr
	if err := cmd.Run(); err != nil {
		return nil, fmt.Errorf("session worker: %v: %s", err, tail(stderr.String(), 500))
	}
	var wo WorkerOut
	if err := json.Unmarshal(stdout.Bytes(), &wo); err != nil {
		return nil, err
	}
	if wo.Violation == nil || wo.LastIdx != ss.Until {
		return nil, nil
	}
	return wo.Violation, nil
}
