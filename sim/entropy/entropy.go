// Package entropy is the scripted randomness device that stands in for the
// operating system source behind crypto/rand.Reader.
package entropy

import (
	"encoding/hex"
	"errors"
	"fmt"
	"io"
	"os"
	"syscall"
)

// Event kinds.
const (
	Short   = "short"   // deliver at most N bytes, nil error
	Zero    = "zero"    // deliver 0 bytes, nil error
	ErrData = "errdata" // deliver N bytes together with error Err (N may be 0)
)

// ErrInjected is the private sentinel error.
var ErrInjected = errors.New("entropy: injected source failure")

// Stall is the panic value the device raises when one caller keeps reading
// after StallLimit consecutive reads that delivered no byte: the caller is
// spinning on a dead or silent source instead of failing.
type Stall struct{ Reads int }

// StallLimit bounds consecutive empty reads served to one task.
const StallLimit = 256

// Event fires when the stream position reaches Off (reads are cut at Off).
type Event struct {
	Off  int    `json:"off"`
	Kind string `json:"kind"`
	N    int    `json:"n,omitempty"`
	Err  string `json:"err,omitempty"` // eof | ueof | injected
}

// Script is a byte stream plus the faults to inject while serving it. After
// the stream is exhausted every read returns (0, io.EOF).
type Script struct {
	Stream []byte  `json:"-"`
	Hex    string  `json:"stream"`
	Events []Event `json:"events,omitempty"`
	// Rep, when non-nil, inserts a long run of blocks at byte offset Rep.At of
	// the stream given by Hex (kept apart so that a two-megabyte run of rejected
	// blocks does not have to be written out in a replay file). Event offsets
	// refer to the expanded stream.
	Rep *Repeat `json:"repeat,omitempty"`
	// Endless: after the stream the device serves an endless deterministic tail
	// instead of io.EOF. Set for the properties that do not judge Random (C10,
	// C15, C16): a library that draws entropy elsewhere (blinding) must not be
	// starved by a script that was sized for the Random calls only.
	Endless bool `json:"endless,omitempty"`
	// ByteReader installs the device with an io.ByteReader method as well.
	ByteReader bool `json:"byte_reader,omitempty"`
	// MaxChunk > 0 cuts every fault-free read to at most MaxChunk bytes.
	MaxChunk int `json:"max_chunk,omitempty"`
	// Playback, when non-nil, replaces the script: the device serves exactly
	// these reads in order (used to re-run one task alone on the bytes and
	// failures it received in a concurrent run).
	Playback []Rec `json:"-"`
}

// Repeat is Count blocks, cycling through Blocks (hex, 32 bytes each).
type Repeat struct {
	At     int      `json:"at"`
	Blocks []string `json:"blocks"`
	Count  int      `json:"count"`
}

// Expand builds Stream from Hex and Rep.
func (s *Script) Expand() error {
	base, err := hex.DecodeString(s.Hex)
	if err != nil {
		return err
	}
	if s.Rep == nil || s.Rep.Count <= 0 || len(s.Rep.Blocks) == 0 {
		s.Stream = base
		return nil
	}
	var blocks [][]byte
	for _, b := range s.Rep.Blocks {
		v, err := hex.DecodeString(b)
		if err != nil {
			return err
		}
		blocks = append(blocks, v)
	}
	at := min(max(s.Rep.At, 0), len(base))
	out := make([]byte, 0, len(base)+32*s.Rep.Count)
	out = append(out, base[:at]...)
	for i := 0; i < s.Rep.Count; i++ {
		out = append(out, blocks[i%len(blocks)]...)
	}
	s.Stream = append(out, base[at:]...)
	return nil
}

// Rec is one served read.
type Rec struct {
	Task int
	Off  int
	Want int
	N    int
	Err  error
	Data []byte
}

// Device implements io.Reader over a Script.
type Device struct {
	S     Script
	pos   int
	ev    int
	Log   []Rec
	Cur   func() int // current task id
	Yield func()     // scheduling point before each read is served
	Fired map[string]int
	empty map[int]int // consecutive empty reads per task
	pb    int
	pbOff int
	pend  map[int]error // ByteDevice: error delivered with a byte, owed to the caller's next ReadByte
}

// NewDevice returns a device at stream position 0.
func NewDevice(s Script) *Device {
	return &Device{S: s, Fired: map[string]int{}, Cur: func() int { return 0 }, empty: map[int]int{}}
}

// tempErr looks like a transient network/system error.
type tempErr struct{}

func (tempErr) Error() string   { return "entropy: resource temporarily unavailable" }
func (tempErr) Temporary() bool { return true }
func (tempErr) Timeout() bool   { return true }

func errOf(name string) error {
	switch name {
	case "eof":
		return io.EOF
	case "ueof":
		return io.ErrUnexpectedEOF
	case "wrapped-eof":
		return fmt.Errorf("entropy: read /dev/urandom: %w", io.EOF)
	case "temporary":
		return tempErr{}
	case "eintr":
		return syscall.EINTR
	case "eagain":
		return syscall.EAGAIN
	case "patherror":
		return &os.PathError{Op: "read", Path: "/dev/urandom", Err: syscall.EIO}
	case "noprogress":
		return io.ErrNoProgress
	default:
		return ErrInjected
	}
}

// ErrKinds lists the error kinds a script may inject.
var ErrKinds = []string{"eof", "ueof", "injected", "wrapped-eof", "temporary", "eintr", "eagain", "patherror", "noprogress"}

func (d *Device) playback(p []byte) (int, error) {
	task := d.Cur()
	if d.pb >= len(d.S.Playback) {
		d.Log = append(d.Log, Rec{Task: task, Want: len(p), Err: io.EOF})
		return 0, io.EOF
	}
	rec := &d.S.Playback[d.pb]
	n := copy(p, rec.Data[d.pbOff:])
	d.pbOff += n
	var err error
	if d.pbOff >= len(rec.Data) {
		err = rec.Err
		d.pb++
		d.pbOff = 0
	}
	d.Log = append(d.Log, Rec{Task: task, Want: len(p), N: n, Err: err, Data: append([]byte(nil), p[:n]...)})
	return n, err
}

// Read serves the script.
func (d *Device) Read(p []byte) (int, error) {
	if d.Yield != nil {
		d.Yield()
	}
	if d.S.Playback != nil {
		return d.playback(p)
	}
	task := d.Cur()
	want := len(p)
	rem := len(d.S.Stream) - d.pos
	// skip events that can no longer fire (defensive; offsets are sorted)
	for d.ev < len(d.S.Events) && d.S.Events[d.ev].Off < d.pos {
		d.ev++
	}
	var n int
	var err error
	if d.ev < len(d.S.Events) && d.S.Events[d.ev].Off == d.pos {
		e := d.S.Events[d.ev]
		d.ev++
		switch e.Kind {
		case Short:
			n = min(e.N, want, rem)
			d.Fired[Short]++
		case Zero:
			n = 0
			d.Fired[Zero]++
		case ErrData:
			n = min(e.N, want, rem)
			err = errOf(e.Err)
			if n > 0 {
				d.Fired["err_with_data:"+e.Err]++
			} else {
				d.Fired["err_no_data:"+e.Err]++
			}
		}
	} else if rem <= 0 && d.S.Endless {
		// past the script: bytes that are a fixed function of the position
		n = want
		d.Fired["endless_tail_read"]++
		for i := range p[:n] {
			p[i] = tailByte(d.pos + i)
		}
		d.Log = append(d.Log, Rec{Task: task, Off: d.pos, Want: want, N: n, Data: append([]byte(nil), p[:n]...)})
		d.pos += n
		d.empty[task] = 0
		return n, nil
	} else if rem <= 0 {
		err = io.EOF
		d.Fired["stream_end_eof"]++
	} else {
		n = min(want, rem)
		if d.S.MaxChunk > 0 {
			n = min(n, d.S.MaxChunk)
		}
		if d.ev < len(d.S.Events) {
			n = min(n, d.S.Events[d.ev].Off-d.pos)
		}
	}
	if n == 0 && want > 0 {
		d.empty[task]++
		if d.empty[task] > StallLimit {
			d.empty[task] = 0
			panic(Stall{StallLimit})
		}
	} else {
		d.empty[task] = 0
	}
	copy(p, d.S.Stream[d.pos:d.pos+n])
	d.Log = append(d.Log, Rec{Task: task, Off: d.pos, Want: want, N: n, Err: err, Data: append([]byte(nil), d.S.Stream[d.pos:d.pos+n]...)})
	d.pos += n
	return n, err
}

// ByteDevice is the same device with the optional io.ByteReader method: some
// scripts install it so that an implementation with a fast path for readers
// that can deliver single bytes (a bufio.Reader in front of the source) takes
// it. ReadByte serves the script exactly like a one-byte Read; an error that
// the script delivers together with the byte is handed out by the next
// ReadByte of the same caller (as a buffered reader does), and the log shows
// the two deliveries as they happened.
type ByteDevice struct{ *Device }

// ReadByte implements io.ByteReader.
func (b ByteDevice) ReadByte() (byte, error) {
	d := b.Device
	task := d.Cur()
	if err := d.pend[task]; err != nil {
		delete(d.pend, task)
		d.Log = append(d.Log, Rec{Task: task, Off: d.pos, Want: 1, N: 0, Err: err})
		d.Fired["bytereader_deferred_error"]++
		return 0, err
	}
	var p [1]byte
	for {
		n, err := d.Read(p[:])
		d.Fired["bytereader_readbyte"]++
		if n == 1 {
			if err != nil {
				d.Log[len(d.Log)-1].Err = nil
				if d.pend == nil {
					d.pend = map[int]error{}
				}
				d.pend[task] = err
			}
			return p[0], nil
		}
		if err != nil {
			return 0, err
		}
	}
}

// tailByte is byte i of the endless tail (splitmix64 of the word index).
func tailByte(i int) byte {
	z := uint64(i/8)*0x9e3779b97f4a7c15 + 0x9e3779b97f4a7c15
	z = (z ^ (z >> 30)) * 0xbf58476d1ce4e5b9
	z = (z ^ (z >> 27)) * 0x94d049bb133111eb
	z ^= z >> 31
	return byte(z >> (8 * uint(i%8)))
}

// Pos returns the stream position.
func (d *Device) Pos() int { return d.pos }
