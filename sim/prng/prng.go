// Package prng is the single source of choices of the simulator: a
// splitmix64-seeded xoshiro256**, implemented here so that a seed means the
// same execution under every Go release.
package prng

import "math/bits"

// R is a deterministic generator. Not safe for concurrent use; the simulator
// has one runner at a time.
type R struct {
	s     [4]uint64
	Draws uint64
}

func splitmix(x *uint64) uint64 {
	*x += 0x9e3779b97f4a7c15
	z := *x
	z = (z ^ (z >> 30)) * 0xbf58476d1ce4e5b9
	z = (z ^ (z >> 27)) * 0x94d049bb133111eb
	return z ^ (z >> 31)
}

// New returns a generator for the given seed.
func New(seed uint64) *R {
	r := &R{}
	x := seed
	for i := range r.s {
		r.s[i] = splitmix(&x)
	}
	return r
}

// Mix derives a sub-seed from a seed and an index.
func Mix(seed, idx uint64) uint64 {
	x := seed ^ (idx+1)*0xd1342543de82ef95
	a := splitmix(&x)
	return a ^ splitmix(&x)
}

// U64 returns 64 random bits.
func (r *R) U64() uint64 {
	r.Draws++
	s := &r.s
	res := bits.RotateLeft64(s[1]*5, 7) * 9
	t := s[1] << 17
	s[2] ^= s[0]
	s[3] ^= s[1]
	s[1] ^= s[2]
	s[0] ^= s[3]
	s[2] ^= t
	s[3] = bits.RotateLeft64(s[3], 45)
	return res
}

// N returns a uniform integer in [0, n). n must be > 0.
func (r *R) N(n int) int {
	if n <= 0 {
		panic("prng: N(<=0)")
	}
	return int(r.U64() % uint64(n))
}

// Range returns a uniform integer in [lo, hi].
func (r *R) Range(lo, hi int) int { return lo + r.N(hi-lo+1) }

// F returns a float in [0,1).
func (r *R) F() float64 { return float64(r.U64()>>11) / (1 << 53) }

// P returns true with probability p.
func (r *R) P(p float64) bool { return r.F() < p }

// Bytes returns n random bytes.
func (r *R) Bytes(n int) []byte {
	b := make([]byte, n)
	for i := 0; i < n; i += 8 {
		v := r.U64()
		for j := 0; j < 8 && i+j < n; j++ {
			b[i+j] = byte(v >> (8 * j))
		}
	}
	return b
}

// Pick returns a weighted choice index; weights must be non-negative and not all zero.
func (r *R) Pick(w []float64) int {
	t := 0.0
	for _, x := range w {
		t += x
	}
	if t <= 0 {
		panic("prng: Pick with zero weights")
	}
	v := r.F() * t
	for i, x := range w {
		if v < x {
			return i
		}
		v -= x
	}
	return len(w) - 1
}
