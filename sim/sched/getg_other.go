//go:build !amd64

package sched

// getg falls back to the (slow) goroutine id on other architectures.
func getg() uintptr { return uintptr(goid()) }
