package sched

func getg() uintptr
