// Package sched is the seeded scheduler. Tasks are real goroutines, but
// exactly one holds the run token at any instant; the token moves only inside
// Hook (a yield point reached by the running task), when a task finishes, or -
// in MayBlock mode - when the running task blocks inside the library on a real
// synchronisation primitive (mutex, once, wait group, channel, condition
// variable), which a monitor detects from the goroutine's wait status.
// Every decision comes from the run's PRNG (generation) or from an explicit
// switch list (replay), so one seed is one execution.
package sched

import (
	"fmt"
	"os"
	"runtime"
	"runtime/debug"
	"strconv"
	"strings"
	"sync"
	"sync/atomic"
	"time"

	"verifsim/prng"
)

// Switch is one scheduling decision that changed the running task.
type Switch struct {
	Step    uint64 `json:"step"` // value of the step counter when the decision was taken
	To      int    `json:"to"`
	Exit    bool   `json:"exit,omitempty"`    // taken because the running task finished
	Blocked bool   `json:"blocked,omitempty"` // taken because the running task blocked inside the library
	From    int    `json:"from"`
	Site    uint32 `json:"site,omitempty"`
}

// Forced reports whether the decision was forced (not a preemption).
func (s Switch) Forced() bool { return s.Exit || s.Blocked }

// Spec selects a policy and its parameters.
type Spec struct {
	Policy string   `json:"policy"` // serial | rr | walk | pct | site
	K      uint64   `json:"k,omitempty"`
	P      float64  `json:"p,omitempty"`
	D      int      `json:"d,omitempty"`
	Funcs  []string `json:"funcs,omitempty"`
	// Q: site policy only — probability of a switch at a yield OUTSIDE the
	// chosen functions (a fault planted inside them often needs one more,
	// ordinary, overlap elsewhere to become visible).
	Q float64 `json:"q,omitempty"`
}

// Foreign identifies a goroutine that the library started in an earlier
// scheduled phase of this process and that is still alive, blocked inside the
// library (a worker waiting for requests). The next scheduler inherits these
// as blocked tasks, in a fixed order, so that when a caller's request wakes one
// of them it is under the scheduler's control like any other task.
type Foreign struct {
	G  uintptr
	ID uint64
}

// Inherited is the process-wide list of such goroutines.
var Inherited []Foreign

// ErrStepCap aborts a run that exceeds its step budget.
type ErrStepCap struct{ Steps uint64 }

func (e ErrStepCap) Error() string { return fmt.Sprintf("step cap exceeded (%d)", e.Steps) }

// ErrDeadlock reports that every unfinished task is blocked inside the library.
type ErrDeadlock struct {
	Step    uint64
	Blocked []int
	Status  []string
}

func (e ErrDeadlock) Error() string {
	return fmt.Sprintf("deadlock at step %d: tasks %v are blocked inside the library (%s) and no task can run", e.Step, e.Blocked, strings.Join(e.Status, "; "))
}

type task struct {
	wake    chan struct{}
	done    bool
	blocked bool // blocked inside the library on a real primitive
	parked  bool // waiting for the token on wake
	prio    int
	fn      func()
	goid    uint64
	gptr    uintptr
	root    int // caller task on whose behalf a library goroutine runs
}

// S is one scheduler instance (one run).
type S struct {
	tasks   []*task
	cur     int
	active  bool
	Step    uint64
	Hash    uint64
	MaxStep uint64

	spec     Spec
	rng      *prng.R
	siteIn   func(uint32) bool // site policy: is this site inside the selected functions
	changeAt []uint64          // pct: steps at which the running task's priority drops
	changeIx int
	lowPrio  int

	Replay   []Switch
	replayIx int
	UseList  bool

	// MayBlock enables the blocked-task monitor (the library contains
	// synchronisation primitives or goroutines).
	MayBlock bool
	mu       sync.Mutex
	progress atomic.Uint64
	nBlocked atomic.Int32
	// inSched counts task goroutines that are executing scheduler code and are
	// not parked: while it is non-zero a "blocked" wait status may be the
	// scheduler's own locking, so the monitor draws no conclusion.
	inSched  atomic.Int32
	byGoid   map[uint64]*task
	byG      map[uintptr]*task
	Deadlock *ErrDeadlock
	BlockedN uint64 // number of times a task blocked inside the library
	nCallers int    // tasks passed to Run; later ones were started by the library
	// Leftover: the run ended with library-started goroutines still blocked
	// (a worker pool waiting for work): not a deadlock, but the process now
	// holds goroutines of this run.
	Leftover int
	// Adopted counts library goroutines met for the first time in a yield; Cut
	// counts library goroutines that the end of an aborted run terminated.
	Adopted, Cut int
	// TimerWakes counts tasks that came back during the grace period before a
	// deadlock verdict (real-clock timers in the library).
	TimerWakes int
	// SelfWakes counts token holders that came back by themselves right after
	// the monitor had flagged them as blocked.
	SelfWakes  int
	lastSwitch uint64
	pauseReq   bool
	monBusy    atomic.Bool

	// Seen, when non-nil, records which yield sites were reached (reach
	// measure for the evidence).
	Seen []bool

	Switches  []Switch
	InOpSw    uint64 // switches taken at a yield (not at task exit)
	OnStep    func(site uint32)
	OnSwitch  func(from, to int, site uint32)
	doneCh    chan struct{}
	doneOnce  sync.Once
	Aborted   error
	PerTask   []uint64 // steps executed by each task
	SpawnedN  int
	TaskPanic any
}

// New creates a scheduler. estSteps is the expected total number of steps
// (from the solo pre-pass), used to place PCT change points.
func New(spec Spec, rng *prng.R, estSteps uint64, siteIn func(uint32) bool) *S {
	s := &S{spec: spec, rng: rng, siteIn: siteIn, MaxStep: 50_000_000, Hash: 0xcbf29ce484222325, byGoid: map[uint64]*task{}, byG: map[uintptr]*task{}}
	if spec.Policy == "pct" {
		if estSteps < 2 {
			estSteps = 2
		}
		for i := 0; i < spec.D; i++ {
			s.changeAt = append(s.changeAt, 1+uint64(rng.U64()%estSteps))
		}
		for i := 1; i < len(s.changeAt); i++ {
			for j := i; j > 0 && s.changeAt[j] < s.changeAt[j-1]; j-- {
				s.changeAt[j], s.changeAt[j-1] = s.changeAt[j-1], s.changeAt[j]
			}
		}
	}
	return s
}

// Cur returns the index of the running task.
func (s *S) Cur() int { return s.cur }

// Active reports whether a concurrent phase is in progress.
func (s *S) Active() bool { return s.active }

func (s *S) lock() {
	if s.MayBlock {
		s.mu.Lock()
	}
}

func (s *S) unlock() {
	if s.MayBlock {
		s.mu.Unlock()
	}
}

// runnable lists the tasks that could be given the token.
func (s *S) runnable() []int {
	var r []int
	for i, t := range s.tasks {
		if !t.done && !t.blocked {
			r = append(r, i)
		}
	}
	return r
}

// pickOther chooses the next task among the runnable ones other than exclude.
func (s *S) pickOther(exclude int) int {
	r := s.ready()
	var c []int
	for _, i := range r {
		if i != exclude {
			c = append(c, i)
		}
	}
	if len(c) == 0 {
		return exclude
	}
	switch s.spec.Policy {
	case "pct":
		best := c[0]
		for _, i := range c {
			if s.tasks[i].prio > s.tasks[best].prio {
				best = i
			}
		}
		return best
	case "rr", "serial":
		for _, i := range c {
			if i > exclude {
				return i
			}
		}
		return c[0]
	default:
		return c[s.rng.N(len(c))]
	}
}

const (
	kindHook = iota
	kindExit
	kindBlocked
)

func kindOf(sw Switch) int {
	switch {
	case sw.Exit:
		return kindExit
	case sw.Blocked:
		return kindBlocked
	}
	return kindHook
}

// fromList looks up the recorded decision for the current step and kind.
func (s *S) fromList(kind int) (int, bool) {
	for s.replayIx < len(s.Replay) && (s.Replay[s.replayIx].Step < s.Step) {
		s.replayIx++
	}
	for s.replayIx < len(s.Replay) && s.Replay[s.replayIx].Step == s.Step {
		sw := s.Replay[s.replayIx]
		if kindOf(sw) != kind {
			if kind == kindHook {
				// a forced decision recorded for this step belongs to a later moment
				return 0, false
			}
			s.replayIx++
			continue
		}
		s.replayIx++
		if sw.To >= 0 && sw.To < len(s.tasks) && !s.tasks[sw.To].done && !s.tasks[sw.To].blocked {
			return sw.To, true
		}
		return 0, false
	}
	return 0, false
}

// decide returns the task that should run after this yield.
func (s *S) decide(site uint32) int {
	if s.pauseReq {
		s.pauseReq = false
		if !s.UseList {
			s.lastSwitch = s.Step
			return s.pickOther(s.cur)
		}
	}
	if s.UseList {
		if s.replayIx < len(s.Replay) && s.Replay[s.replayIx].Step <= s.Step {
			s.ready()
		}
		if to, ok := s.fromList(kindHook); ok {
			return to
		}
		return s.cur
	}
	if s.spec.Policy != "serial" && s.Step-s.lastSwitch > spinFairness && len(s.tasks) > 1 {
		// whatever the policy, a task that has kept the token for millions of
		// steps while others could run is probably spinning on something one of
		// them has to do (a polled flag): it loses the token, and under pct its
		// priority
		s.lastSwitch = s.Step
		if s.spec.Policy == "pct" {
			s.lowPrio--
			s.tasks[s.cur].prio = s.lowPrio
		}
		return s.pickOther(s.cur)
	}
	switch s.spec.Policy {
	case "serial":
		// a task that spins (runtime.Gosched, polling an atomic flag) while it
		// waits for a goroutine the library started would keep the token for
		// ever: after a long uninterrupted stretch the others get a turn
		if s.Step-s.lastSwitch > serialFairness && len(s.tasks) > 1 {
			s.lastSwitch = s.Step
			return s.pickOther(s.cur)
		}
		return s.cur
	case "rr":
		if s.spec.K > 0 && s.Step%s.spec.K == 0 {
			return s.pickOther(s.cur)
		}
	case "walk":
		if s.rng.P(s.spec.P) {
			return s.pickOther(s.cur)
		}
	case "site":
		if s.siteIn != nil && s.siteIn(site) {
			if s.rng.P(s.spec.P) {
				return s.pickOther(s.cur)
			}
		} else if s.spec.Q > 0 && s.rng.P(s.spec.Q) {
			return s.pickOther(s.cur)
		}
	case "pct":
		if s.changeIx < len(s.changeAt) && s.Step >= s.changeAt[s.changeIx] {
			s.changeIx++
			s.lowPrio--
			s.tasks[s.cur].prio = s.lowPrio
			best := s.cur
			for _, i := range s.ready() {
				if s.tasks[i].prio > s.tasks[best].prio {
					best = i
				}
			}
			return best
		}
	}
	return s.cur
}

// Hook is the yield callback. It runs on the goroutine of the running task
// (or, in MayBlock mode, of a task that has just been unblocked and must now
// wait for the token).
func (s *S) Hook(site uint32) {
	if !s.active {
		return
	}
	if s.MayBlock {
		s.progress.Add(1)
		s.inSched.Add(1)
		defer s.inSched.Add(-1)
		if getg() != s.tasks[s.cur].gptr {
			// a task that was blocked inside the library and has been released:
			// it registers as runnable and waits for the token
			if !s.wokenPark() {
				return
			}
		} else {
			s.selfUnflag()
		}
	}
	s.Step++
	if int(site) < len(s.Seen) {
		s.Seen[site] = true
	}
	s.PerTask[s.cur]++
	s.Hash = (s.Hash ^ (uint64(site) | uint64(s.cur)<<32)) * 0x100000001b3
	if s.Step > s.MaxStep {
		if s.Aborted == nil {
			s.Aborted = ErrStepCap{s.Step}
		}
		panic(s.Aborted)
	}
	if s.OnStep != nil {
		s.OnStep(site)
	}
	next := s.decide(site)
	if next != s.cur {
		s.InOpSw++
		s.switchTo(next, site, false)
	}
}

// SitePause is the pseudo site of a time.Sleep or runtime.Gosched of the
// library.
const SitePause = 0xfffffffe

// Pause is called instead of time.Sleep(d) / runtime.Gosched() (d = 0) by the
// instrumented library: the caller offers the token to another runnable task,
// whatever the policy (a recorded, replayable decision). If nobody else can
// run, a sleeping caller waits a little on the real clock (it may be waiting
// for a timer or for a goroutine that is not under the scheduler yet).
func (s *S) Pause(d int64) {
	if !s.active {
		if d > 0 {
			time.Sleep(time.Duration(d))
		} else {
			runtime.Gosched()
		}
		return
	}
	s.pauseReq = true
	before := len(s.Switches)
	s.Hook(SitePause)
	if len(s.Switches) == before && d > 0 {
		time.Sleep(min(time.Duration(d), 200*time.Microsecond))
	}
}

// wokenPark is reached, concurrently with the running task, by a task that was
// blocked inside the library and has just been released (e.g. by an Unlock of
// the running task). It registers as runnable and parks until it is given the
// token. It reports false when the run ended meanwhile.
func (s *S) wokenPark() bool {
	g := getg()
	s.mu.Lock()
	if !s.active {
		s.mu.Unlock()
		return false
	}
	if s.tasks[s.cur].gptr == g {
		s.mu.Unlock()
		return true
	}
	t := s.byG[g]
	if t != nil && (t.done || t.goid != goid()) {
		// the runtime has given the g of a goroutine that has ended (a task of
		// this run that has finished, an inherited or adopted goroutine) to a
		// new goroutine: the entry is stale
		t.done = true
		if t.blocked {
			t.blocked = false
			s.nBlocked.Add(-1)
		}
		delete(s.byG, g)
		t = nil
	}
	if t == nil {
		// a goroutine of the library that no scheduler of this process has seen
		// start (it was started outside every scheduled phase): adopt it
		t = &task{wake: make(chan struct{}), goid: goid(), gptr: g}
		s.tasks = append(s.tasks, t)
		s.PerTask = append(s.PerTask, 0)
		s.byGoid[t.goid] = t
		s.byG[g] = t
		s.Adopted++
	}
	if t.blocked {
		t.blocked = false
		s.nBlocked.Add(-1)
	}
	t.parked = true
	s.mu.Unlock()
	s.inSched.Add(-1)
	<-t.wake
	s.inSched.Add(1)
	s.mu.Lock()
	t.parked = false
	ok := s.active
	s.mu.Unlock()
	if !ok {
		runtime.Goexit()
	}
	return true
}

// ready returns the runnable tasks. The set is only consulted at decision
// points; before each, the running task waits until every task flagged blocked
// has settled (still blocked by wait status, or parked), so that the set is a
// function of the program and not of timing.
func (s *S) ready() []int {
	if s.MayBlock && s.nBlocked.Load() > 0 {
		s.settle()
	}
	s.lock()
	r := s.runnable()
	s.unlock()
	return r
}

// settle waits until every task flagged blocked is either really blocked
// (wait status of its goroutine) or has parked itself.
func (s *S) settle() {
	// scheduler code run by the caller itself counts once in inSched when the
	// caller is a task (never for the monitor)
	self := int32(0)
	s.mu.Lock()
	if s.byG[getg()] != nil {
		self = 1
	}
	s.mu.Unlock()
	for {
		s.mu.Lock()
		var pend []*task
		for _, t := range s.tasks {
			if t.blocked {
				pend = append(pend, t)
			}
		}
		live := s.active
		s.mu.Unlock()
		if len(pend) == 0 || !live {
			return
		}
		if s.inSched.Load() != self {
			// another task is inside scheduler code (a released task registering
			// itself): its wait status may be the scheduler's own locking
			time.Sleep(20 * time.Microsecond)
			continue
		}
		st := goroutineStatus()
		stable := s.inSched.Load() == self
		for _, t := range pend {
			s.mu.Lock()
			flagged := t.blocked
			s.mu.Unlock()
			if !flagged {
				continue
			}
			status, alive := st[t.goid]
			if !alive {
				// the goroutine has ended (an inherited worker that was shut down)
				s.mu.Lock()
				if t.blocked {
					t.blocked, t.done = false, true
					s.nBlocked.Add(-1)
				}
				s.mu.Unlock()
				continue
			}
			if !isBlockedStatus(status) {
				stable = false
			}
		}
		if stable {
			return
		}
		time.Sleep(20 * time.Microsecond)
	}
}

// serialFairness is the number of consecutive steps after which the serial
// policy lets another runnable task run (see decide).
const serialFairness = 200000

// spinFairness is the same bound for the other policies (far above the length
// of any ordinary call, so that it only catches spinning).
const spinFairness = 3000000

func (s *S) switchTo(next int, site uint32, exit bool) {
	prev := s.cur
	s.lastSwitch = s.Step
	s.Switches = append(s.Switches, Switch{Step: s.Step, To: next, Exit: exit, From: prev, Site: site})
	if s.OnSwitch != nil {
		s.OnSwitch(prev, next, site)
	}
	s.lock()
	s.cur = next
	if !exit {
		s.tasks[prev].parked = true
	}
	s.unlock()
	if s.MayBlock {
		s.progress.Add(1)
	}
	s.tasks[next].wake <- struct{}{}
	if !exit {
		if s.MayBlock {
			s.inSched.Add(-1)
		}
		<-s.tasks[prev].wake
		if s.MayBlock {
			s.inSched.Add(1)
		}
		s.lock()
		s.tasks[prev].parked = false
		ok := s.active
		s.unlock()
		if !ok {
			runtime.Goexit()
		}
	}
}

func (s *S) finish() {
	s.doneOnce.Do(func() {
		s.lock()
		s.active = false
		if s.MayBlock {
			// goroutines the library started that are still blocked in it stay
			// with the process: hand them to the next scheduler
			var keep []Foreign
			for i, t := range s.tasks {
				if i >= s.nCallers && t.blocked && !t.done {
					keep = append(keep, Foreign{G: t.gptr, ID: t.goid})
				}
			}
			Inherited = keep
			for i, t := range s.tasks {
				if i >= s.nCallers && t.parked && !t.done {
					// a library goroutine is ended by the harness in mid-flight
					// (aborted run): the library state of this process is spent
					s.Cut++
				}
			}
		}
		s.unlock()
		close(s.doneCh)
	})
}

// callerBlocked reports whether an unfinished task of the harness (not one the
// library started) is blocked. Library goroutines that stay blocked once every
// caller has finished - a worker pool waiting for requests - are quiescent, not
// deadlocked.
func (s *S) callerBlocked() bool {
	for i, t := range s.tasks {
		if i < s.nCallers && t.blocked && !t.done {
			return true
		}
	}
	return false
}

func (s *S) deadlock(st map[uint64]string) {
	if !s.callerBlocked() {
		for _, t := range s.tasks {
			if t.blocked && !t.done {
				s.Leftover++
			}
		}
		return
	}
	d := &ErrDeadlock{Step: s.Step}
	for i, t := range s.tasks {
		if t.blocked && !t.done {
			d.Blocked = append(d.Blocked, i)
			d.Status = append(d.Status, fmt.Sprintf("task %d: %s", i, st[t.goid]))
		}
	}
	if os.Getenv("VERIF_DEBUG_SCHED") != "" {
		for i, t := range s.tasks {
			fmt.Fprintf(os.Stderr, "deadlock: task %d caller=%v adopted=%v done=%v blocked=%v parked=%v goid=%d status=%q\n", i, i < s.nCallers, t.fn == nil, t.done, t.blocked, t.parked, t.goid, st[t.goid])
		}
		for id, v := range st {
			fmt.Fprintf(os.Stderr, "deadlock: goroutine %d %q\n", id, v)
		}
		buf := make([]byte, 1<<20)
		fmt.Fprintf(os.Stderr, "deadlock stacks:\n%s\n", buf[:runtime.Stack(buf, true)])
	}
	s.Deadlock = d
	if s.Aborted == nil {
		s.Aborted = *d
	}
}

// graceForTimers is called when no task can run and a caller is blocked, before
// that is declared a deadlock: a task blocked in a select or on a channel may be
// waiting for a timer of the real clock (time.After, a context deadline), which
// the simulator does not own. It polls for up to 200 ms for a task to come back.
// (The pinned library has no timer; this only keeps a tree that introduces one
// from being reported as deadlocked.)
func (s *S) graceForTimers(holder *task) []int {
	s.lock()
	cb := s.callerBlocked()
	s.unlock()
	if !cb {
		return nil
	}
	for i := 0; i < 200; i++ {
		time.Sleep(time.Millisecond)
		if holder != nil {
			s.lock()
			back := !holder.blocked
			s.unlock()
			if back {
				return nil // the flagged holder itself came back
			}
		}
		if r := s.ready(); len(r) > 0 {
			s.TimerWakes++
			return r
		}
	}
	return nil
}

// selfUnflag is for the token holder that the monitor has just flagged as
// blocked and that has come back by itself before the monitor moved the token
// (only a timer of the real clock can do that: every other wake-up needs another
// task to run first). It takes the flag back, waits for the monitor to abandon
// the switch it had begun, and goes on as the holder.
func (s *S) selfUnflag() {
	if s.nBlocked.Load() == 0 {
		return
	}
	s.mu.Lock()
	t := s.tasks[s.cur]
	mine := t.gptr == getg() && t.blocked
	if mine {
		t.blocked = false
		s.nBlocked.Add(-1)
		s.SelfWakes++
	}
	s.mu.Unlock()
	if !mine {
		return
	}
	s.inSched.Add(-1)
	for s.monBusy.Load() {
		time.Sleep(10 * time.Microsecond)
	}
	s.inSched.Add(1)
}

func (s *S) exitCurrent() {
	if s.MayBlock {
		s.progress.Add(1)
		s.inSched.Add(1)
		defer s.inSched.Add(-1)
		if s.nBlocked.Load() > 0 && getg() != s.tasks[s.cur].gptr {
			// a released task may get here without having passed a yield: it must
			// hold the token before it may leave
			if !s.wokenPark() {
				return
			}
		} else {
			s.selfUnflag()
		}
	}
	s.lock()
	s.tasks[s.cur].done = true
	s.unlock()
	r := s.ready()
	if len(r) == 0 {
		r = s.graceForTimers(nil)
	}
	s.lock()
	anyBlocked := false
	for _, t := range s.tasks {
		if t.blocked && !t.done {
			anyBlocked = true
		}
	}
	s.unlock()
	if len(r) == 0 {
		if anyBlocked {
			s.deadlock(goroutineStatus())
		}
		s.finish()
		return
	}
	var next int
	ok := false
	if s.UseList {
		next, ok = s.fromList(kindExit)
	}
	if !ok {
		if s.UseList {
			next = r[0]
		} else {
			next = s.pickOther(s.cur)
		}
	}
	s.switchTo(next, 0, true)
}

func (s *S) start(t *task) {
	ready := make(chan struct{})
	go func() {
		debug.SetPanicOnFault(true)
		t.goid = goid()
		t.gptr = getg()
		s.mu.Lock()
		s.byGoid[t.goid] = t
		s.byG[t.gptr] = t
		t.parked = true
		s.mu.Unlock()
		close(ready)
		<-t.wake
		s.lock()
		t.parked = false
		ok := s.active
		s.unlock()
		if !ok {
			return
		}
		defer s.exitCurrent()
		defer func() {
			if r := recover(); r != nil {
				if _, ok := r.(ErrStepCap); ok {
					return
				}
				if s.TaskPanic == nil {
					s.TaskPanic = r
				}
			}
		}()
		t.fn()
	}()
	<-ready
}

// rootOf returns the caller task on whose behalf task i runs: i itself for a
// caller, the caller that (transitively) started it for a goroutine of the
// library, -1 when that is not known (inherited or adopted goroutines).
func (s *S) rootOf(i int) int {
	if i < s.nCallers {
		return i
	}
	if i < len(s.tasks) && s.tasks[i].fn != nil {
		return s.tasks[i].root
	}
	return -1
}

// Root is rootOf for the harness (entropy reads are booked to the caller).
func (s *S) Root(i int) int {
	s.lock()
	defer s.unlock()
	return s.rootOf(i)
}

// Spawn adds a task while the system runs (library-created goroutine).
func (s *S) Spawn(f func()) {
	if !s.active {
		go f()
		return
	}
	if s.MayBlock {
		s.progress.Add(1)
		s.inSched.Add(1)
		defer s.inSched.Add(-1)
	}
	t := &task{wake: make(chan struct{}), fn: f, prio: 0}
	if s.spec.Policy == "pct" && !s.UseList {
		t.prio = 1 + s.rng.N(1<<20)
	}
	s.lock()
	t.root = s.rootOf(s.cur)
	s.tasks = append(s.tasks, t)
	s.PerTask = append(s.PerTask, 0)
	s.SpawnedN++
	s.unlock()
	s.start(t)
}

// monitor detects that the running task has blocked inside the library and
// moves the token on its behalf.
func (s *S) monitor() {
	var last uint64
	idle := 0
	for {
		time.Sleep(100 * time.Microsecond)
		s.mu.Lock()
		if !s.active {
			s.mu.Unlock()
			return
		}
		p := s.progress.Load()
		if p != last {
			last, idle = p, 0
			s.mu.Unlock()
			continue
		}
		idle++
		if idle < 2 {
			s.mu.Unlock()
			continue
		}
		t := s.tasks[s.cur]
		if t.parked || t.done || t.blocked || s.inSched.Load() != 0 {
			s.mu.Unlock()
			continue
		}
		st := goroutineStatus()
		status, alive := st[t.goid]
		gone := !alive && t.fn == nil // an inherited library goroutine has ended
		if s.progress.Load() != p || s.inSched.Load() != 0 || !(gone || isBlockedStatus(status)) {
			s.mu.Unlock()
			continue
		}
		if gone {
			t.done = true
		} else {
			// the running task is blocked inside the library
			t.blocked = true
			s.nBlocked.Add(1)
			s.BlockedN++
		}
		s.monBusy.Store(true)
		s.mu.Unlock()
		// cameBack: the holder woke up by itself (a real-clock timer) while the
		// switch was being prepared; it keeps the token
		cameBack := func() bool {
			if gone || t.blocked {
				return false
			}
			s.monBusy.Store(false)
			last, idle = s.progress.Load(), 0
			return true
		}
		r := s.ready() // settles tasks it may have released just before blocking
		if len(r) == 0 {
			r = s.graceForTimers(t)
		}
		if len(r) == 0 {
			s.mu.Lock()
			if cameBack() {
				s.mu.Unlock()
				continue
			}
			s.deadlock(st)
			s.monBusy.Store(false)
			s.mu.Unlock()
			s.finish()
			return
		}
		next, ok := 0, false
		if s.UseList {
			next, ok = s.fromList(kindBlocked)
			if !ok {
				next = r[0]
			}
		} else {
			next = s.pickOther(s.cur)
		}
		s.mu.Lock()
		if cameBack() {
			s.mu.Unlock()
			continue
		}
		prev := s.cur
		s.Switches = append(s.Switches, Switch{Step: s.Step, To: next, Blocked: true, From: prev})
		s.cur = next
		s.progress.Add(1)
		last, idle = s.progress.Load(), 0
		s.monBusy.Store(false)
		s.mu.Unlock()
		s.tasks[next].wake <- struct{}{}
	}
}

// Run executes the tasks to completion under the policy and returns when all
// (including spawned ones) have finished, or when no task can run any more.
func (s *S) Run(fns []func()) {
	s.tasks = nil
	s.nCallers = len(fns)
	s.PerTask = make([]uint64, len(fns))
	s.doneCh = make(chan struct{})
	for _, f := range fns {
		t := &task{wake: make(chan struct{}), fn: f}
		if s.spec.Policy == "pct" && !s.UseList {
			t.prio = 1 + s.rng.N(1<<20)
		}
		s.tasks = append(s.tasks, t)
		s.start(t)
	}
	if len(fns) == 0 {
		return
	}
	if s.MayBlock {
		for _, f := range Inherited {
			t := &task{wake: make(chan struct{}), goid: f.ID, gptr: f.G, blocked: true}
			s.tasks = append(s.tasks, t)
			s.PerTask = append(s.PerTask, 0)
			s.byGoid[f.ID] = t
			s.byG[f.G] = t
			s.nBlocked.Add(1)
		}
	}
	first := 0
	if s.UseList {
		if to, ok := s.fromList(kindExit); ok {
			first = to
		}
	} else if s.spec.Policy == "pct" {
		for i := range s.tasks {
			if s.tasks[i].prio > s.tasks[first].prio {
				first = i
			}
		}
	} else if s.spec.Policy != "serial" && s.spec.Policy != "rr" {
		first = s.rng.N(len(fns))
	}
	s.active = true
	s.cur = first
	s.Switches = append(s.Switches, Switch{Step: 0, To: first, Exit: true, From: -1})
	if s.MayBlock {
		go s.monitor()
	}
	s.tasks[first].wake <- struct{}{}
	<-s.doneCh
	// release tasks that are still parked so that their goroutines end
	s.lock()
	var parked []*task
	for _, t := range s.tasks {
		if t.parked && !t.done {
			parked = append(parked, t)
		}
	}
	s.unlock()
	for _, t := range parked {
		select {
		case t.wake <- struct{}{}:
		case <-time.After(10 * time.Millisecond):
		}
	}
}

// ---------------------------------------------------------------------------
// goroutine introspection

var stackBuf = make([]byte, 1<<20)
var stackMu sync.Mutex

func goid() uint64 {
	var b [64]byte
	n := runtime.Stack(b[:], false)
	// "goroutine 123 [running]:"
	f := strings.Fields(string(b[:n]))
	if len(f) < 2 {
		return 0
	}
	id, _ := strconv.ParseUint(f[1], 10, 64)
	return id
}

// goroutineStatus returns the wait status of every goroutine. The generic
// status "semacquire" is shared by sync.WaitGroup.Wait and by the runtime's own
// semaphores (starting a GC cycle, stopping the world for a stack dump): it is
// reported as "semacquire" only when a sync frame is on top of the stack, and
// as "runtime semacquire" otherwise.
func goroutineStatus() map[uint64]string {
	stackMu.Lock()
	defer stackMu.Unlock()
	n := runtime.Stack(stackBuf, true)
	for n == len(stackBuf) && len(stackBuf) < 64<<20 {
		stackBuf = make([]byte, 2*len(stackBuf))
		n = runtime.Stack(stackBuf, true)
	}
	out := map[uint64]string{}
	txt := string(stackBuf[:n])
	for len(txt) > 0 {
		i := strings.Index(txt, "goroutine ")
		if i < 0 {
			break
		}
		if i > 0 && txt[i-1] != '\n' {
			txt = txt[i+10:]
			continue
		}
		line := txt[i:]
		if j := strings.IndexByte(line, '\n'); j >= 0 {
			line = line[:j]
		}
		body := txt[i+len(line):]
		if k := strings.Index(body, "\n\n"); k >= 0 {
			body = body[:k]
		}
		txt = txt[i+len(line):]
		// goroutine N [status, ...]:
		rest := line[len("goroutine "):]
		sp := strings.IndexByte(rest, ' ')
		if sp < 0 {
			continue
		}
		id, err := strconv.ParseUint(rest[:sp], 10, 64)
		if err != nil {
			continue
		}
		lb, rb := strings.IndexByte(rest, '['), strings.LastIndexByte(rest, ']')
		if lb < 0 || rb < lb {
			continue
		}
		st := rest[lb+1 : rb]
		if c := strings.IndexByte(st, ','); c >= 0 {
			st = st[:c]
		}
		if st == "semacquire" {
			// first frame that is not the runtime's own
			syncTop := false
			for _, fl := range strings.Split(body, "\n") {
				if fl == "" || fl[0] == '\t' {
					continue
				}
				if strings.HasPrefix(fl, "runtime.") {
					continue
				}
				syncTop = strings.HasPrefix(fl, "sync.")
				break
			}
			if !syncTop {
				st = "runtime semacquire"
			}
		}
		out[id] = st
	}
	return out
}

// isBlockedStatus reports whether a goroutine wait status means "blocked on a
// synchronisation primitive" (as opposed to running, runnable, in a system
// call, sleeping or being preempted).
func isBlockedStatus(st string) bool {
	switch {
	case st == "":
		return false
	case strings.HasPrefix(st, "chan "), strings.HasPrefix(st, "select"),
		strings.HasPrefix(st, "sync."), strings.HasPrefix(st, "semacquire"),
		// a caller waiting for a coroutine (iter.Pull) or the coroutine waiting
		// for its caller; the finalizer goroutine between two finalizers; a task
		// sleeping on the real clock or waiting for I/O
		strings.HasPrefix(st, "coroutine"), strings.HasPrefix(st, "finalizer wait"),
		strings.HasPrefix(st, "sleep"), strings.HasPrefix(st, "IO wait"):
		return true
	}
	return false
}
