// Package sched is the seeded scheduler. Tasks are real goroutines, but
// exactly one holds the run token at any instant; the token moves only inside
// Hook (a yield point reached by the running task) or when a task finishes.
// Every decision comes from the run's PRNG (generation) or from an explicit
// switch list (replay), so one seed is one execution.
package sched

import (
	"fmt"
	"runtime/debug"

	"verifsim/prng"
)

// Switch is one scheduling decision that changed the running task.
type Switch struct {
	Step uint64 `json:"step"` // value of the step counter when the decision was taken
	To   int    `json:"to"`
	Exit bool   `json:"exit,omitempty"` // taken because the running task finished
	From int    `json:"from"`
	Site uint32 `json:"site,omitempty"`
}

// Spec selects a policy and its parameters.
type Spec struct {
	Policy string   `json:"policy"` // serial | rr | walk | pct | site
	K      uint64   `json:"k,omitempty"`
	P      float64  `json:"p,omitempty"`
	D      int      `json:"d,omitempty"`
	Funcs  []string `json:"funcs,omitempty"`
}

// ErrStepCap aborts a run that exceeds its step budget.
type ErrStepCap struct{ Steps uint64 }

func (e ErrStepCap) Error() string { return fmt.Sprintf("step cap exceeded (%d)", e.Steps) }

type task struct {
	wake chan struct{}
	done bool
	prio int
	fn   func()
}

// S is one scheduler instance (one run).
type S struct {
	tasks   []*task
	cur     int
	active  bool
	Step    uint64
	Hash    uint64
	MaxStep uint64

	spec     Spec
	rng      *prng.R
	siteIn   func(uint32) bool // site policy: is this site inside the selected functions
	changeAt []uint64          // pct: steps at which the running task's priority drops
	changeIx int
	lowPrio  int

	Replay   []Switch
	replayIx int
	UseList  bool

	Switches  []Switch
	InOpSw    uint64 // switches taken at a yield (not at task exit)
	OnStep    func(site uint32)
	OnSwitch  func(from, to int, site uint32)
	doneCh    chan struct{}
	Aborted   error
	PerTask   []uint64 // steps executed by each task
	spawned   int
	SpawnedN  int
	TaskPanic any
}

// New creates a scheduler. estSteps is the expected total number of steps
// (from the solo pre-pass), used to place PCT change points.
func New(spec Spec, rng *prng.R, estSteps uint64, siteIn func(uint32) bool) *S {
	s := &S{spec: spec, rng: rng, siteIn: siteIn, MaxStep: 50_000_000, Hash: 0xcbf29ce484222325}
	if spec.Policy == "pct" {
		if estSteps < 2 {
			estSteps = 2
		}
		for i := 0; i < spec.D; i++ {
			s.changeAt = append(s.changeAt, 1+uint64(rng.U64()%estSteps))
		}
		// sort ascending
		for i := 1; i < len(s.changeAt); i++ {
			for j := i; j > 0 && s.changeAt[j] < s.changeAt[j-1]; j-- {
				s.changeAt[j], s.changeAt[j-1] = s.changeAt[j-1], s.changeAt[j]
			}
		}
	}
	return s
}

// Cur returns the index of the running task.
func (s *S) Cur() int { return s.cur }

// Active reports whether a concurrent phase is in progress.
func (s *S) Active() bool { return s.active }

func (s *S) runnable() []int {
	var r []int
	for i, t := range s.tasks {
		if !t.done {
			r = append(r, i)
		}
	}
	return r
}

// pick chooses the next task among the runnable ones other than cur (or
// including cur when allowCur).
func (s *S) pickOther(exclude int) int {
	r := s.runnable()
	var c []int
	for _, i := range r {
		if i != exclude {
			c = append(c, i)
		}
	}
	if len(c) == 0 {
		return exclude
	}
	switch s.spec.Policy {
	case "pct":
		best := c[0]
		for _, i := range c {
			if s.tasks[i].prio > s.tasks[best].prio {
				best = i
			}
		}
		return best
	case "rr", "serial":
		for _, i := range c {
			if i > exclude {
				return i
			}
		}
		return c[0]
	default:
		return c[s.rng.N(len(c))]
	}
}

func (s *S) fromList(exit bool) (int, bool) {
	for s.replayIx < len(s.Replay) && (s.Replay[s.replayIx].Step < s.Step) {
		s.replayIx++
	}
	for s.replayIx < len(s.Replay) && s.Replay[s.replayIx].Step == s.Step {
		sw := s.Replay[s.replayIx]
		if sw.Exit != exit {
			if !exit && sw.Exit {
				// an exit decision recorded for this step belongs to a later moment
				return 0, false
			}
			s.replayIx++
			continue
		}
		s.replayIx++
		if sw.To >= 0 && sw.To < len(s.tasks) && !s.tasks[sw.To].done {
			return sw.To, true
		}
		return 0, false
	}
	return 0, false
}

// decide returns the task that should run after this yield.
func (s *S) decide(site uint32) int {
	if s.UseList {
		if to, ok := s.fromList(false); ok {
			return to
		}
		return s.cur
	}
	switch s.spec.Policy {
	case "serial":
		return s.cur
	case "rr":
		if s.spec.K > 0 && s.Step%s.spec.K == 0 {
			return s.pickOther(s.cur)
		}
	case "walk":
		if s.rng.P(s.spec.P) {
			return s.pickOther(s.cur)
		}
	case "site":
		if s.siteIn != nil && s.siteIn(site) && s.rng.P(s.spec.P) {
			return s.pickOther(s.cur)
		}
	case "pct":
		if s.changeIx < len(s.changeAt) && s.Step >= s.changeAt[s.changeIx] {
			s.changeIx++
			s.lowPrio--
			s.tasks[s.cur].prio = s.lowPrio
			best := s.cur
			for _, i := range s.runnable() {
				if s.tasks[i].prio > s.tasks[best].prio {
					best = i
				}
			}
			return best
		}
	}
	return s.cur
}

// Hook is the yield callback. It runs on the goroutine of the running task.
func (s *S) Hook(site uint32) {
	if !s.active {
		return
	}
	s.Step++
	s.PerTask[s.cur]++
	s.Hash = (s.Hash ^ (uint64(site) | uint64(s.cur)<<32)) * 0x100000001b3
	if s.Step > s.MaxStep {
		if s.Aborted == nil {
			s.Aborted = ErrStepCap{s.Step}
		}
		panic(s.Aborted)
	}
	if s.OnStep != nil {
		s.OnStep(site)
	}
	next := s.decide(site)
	if next != s.cur {
		s.InOpSw++
		s.switchTo(next, site, false)
	}
}

func (s *S) switchTo(next int, site uint32, exit bool) {
	prev := s.cur
	s.Switches = append(s.Switches, Switch{Step: s.Step, To: next, Exit: exit, From: prev, Site: site})
	if s.OnSwitch != nil {
		s.OnSwitch(prev, next, site)
	}
	s.cur = next
	s.tasks[next].wake <- struct{}{}
	if !exit {
		<-s.tasks[prev].wake
	}
}

func (s *S) exitCurrent() {
	s.tasks[s.cur].done = true
	r := s.runnable()
	if len(r) == 0 {
		s.active = false
		close(s.doneCh)
		return
	}
	var next int
	ok := false
	if s.UseList {
		next, ok = s.fromList(true)
	}
	if !ok {
		if s.UseList {
			next = r[0]
		} else {
			next = s.pickOther(s.cur)
		}
	}
	s.switchTo(next, 0, true)
}

func (s *S) start(t *task, idx int) {
	go func() {
		debug.SetPanicOnFault(true)
		<-t.wake
		defer s.exitCurrent()
		defer func() {
			if r := recover(); r != nil {
				if _, ok := r.(ErrStepCap); ok {
					return
				}
				if s.TaskPanic == nil {
					s.TaskPanic = r
				}
			}
		}()
		t.fn()
	}()
}

// Spawn adds a task while the system runs (library-created goroutine).
func (s *S) Spawn(f func()) {
	if !s.active {
		go f()
		return
	}
	t := &task{wake: make(chan struct{}), fn: f, prio: 0}
	if s.spec.Policy == "pct" && !s.UseList {
		t.prio = 1 + s.rng.N(1<<20)
	}
	s.tasks = append(s.tasks, t)
	s.PerTask = append(s.PerTask, 0)
	s.SpawnedN++
	s.start(t, len(s.tasks)-1)
}

// Run executes the tasks to completion under the policy and returns when all
// (including spawned ones) have finished.
func (s *S) Run(fns []func()) {
	s.tasks = nil
	s.PerTask = make([]uint64, len(fns))
	s.doneCh = make(chan struct{})
	for i, f := range fns {
		t := &task{wake: make(chan struct{}), fn: f}
		if s.spec.Policy == "pct" && !s.UseList {
			t.prio = 1 + s.rng.N(1<<20)
		}
		s.tasks = append(s.tasks, t)
		s.start(t, i)
	}
	if len(fns) == 0 {
		return
	}
	first := 0
	if s.UseList {
		if to, ok := s.fromList(true); ok {
			first = to
		}
	} else if s.spec.Policy == "pct" {
		for i := range s.tasks {
			if s.tasks[i].prio > s.tasks[first].prio {
				first = i
			}
		}
	} else if s.spec.Policy != "serial" && s.spec.Policy != "rr" {
		first = s.rng.N(len(fns))
	}
	s.active = true
	s.cur = first
	s.Switches = append(s.Switches, Switch{Step: 0, To: first, Exit: true, From: -1})
	s.tasks[first].wake <- struct{}{}
	<-s.doneCh
}
