#include "textflag.h"

// func getg() uintptr
// Returns the address of the running goroutine's g structure: a cheap identity
// that is stable for the lifetime of the goroutine.
TEXT ·getg(SB),NOSPLIT,$0-8
	MOVQ (TLS), AX
	MOVQ AX, ret+0(FP)
	RET
