package work

import (
	"reflect"
	"strings"
	"unsafe"

	secp "github.com/bytemare/secp256k1"
)

// MemRange is a half-open address range.
type MemRange struct{ Lo, Hi uintptr }

// Overlaps reports whether two ranges intersect.
func (r MemRange) Overlaps(o MemRange) bool {
	return r.Lo < o.Hi && o.Lo < r.Hi && r.Lo < r.Hi && o.Lo < o.Hi
}

// Globals is the monitor over every package-level variable of the module
// under test (the list is generated from the current tree's AST).
type Globals struct {
	names  []string
	ptrs   []reflect.Value // pointer to each variable
	deep   []uint64
	raw    [][]byte // snapshot of the variable's own bytes
	live   [][]byte // view of the variable's own bytes
	ranges []MemRange
	rnames []string
}

type walker struct {
	h       uint64
	seen    map[uintptr]bool
	ranges  []MemRange
	collect bool
}

func (w *walker) mix(v uint64) { w.h = (w.h ^ v) * 0x100000001b3 }

func (w *walker) addRange(p uintptr, n uintptr) {
	if w.collect && n > 0 {
		w.ranges = append(w.ranges, MemRange{p, p + n})
	}
}

func (w *walker) walk(v reflect.Value, depth int) {
	if depth > 64 {
		return
	}
	w.mix(uint64(v.Kind()))
	switch v.Kind() {
	case reflect.Bool:
		if v.Bool() {
			w.mix(1)
		} else {
			w.mix(0)
		}
	case reflect.Int, reflect.Int8, reflect.Int16, reflect.Int32, reflect.Int64:
		w.mix(uint64(v.Int()))
	case reflect.Uint, reflect.Uint8, reflect.Uint16, reflect.Uint32, reflect.Uint64, reflect.Uintptr:
		w.mix(v.Uint())
	case reflect.Float32, reflect.Float64:
		w.mix(uint64(int64(v.Float() * 1e9)))
	case reflect.Complex64, reflect.Complex128:
		c := v.Complex()
		w.mix(uint64(int64(real(c) * 1e9)))
		w.mix(uint64(int64(imag(c) * 1e9)))
	case reflect.String:
		s := v.String()
		w.mix(uint64(len(s)))
		for i := 0; i < len(s); i++ {
			w.mix(uint64(s[i]))
		}
	case reflect.Pointer:
		if v.IsNil() {
			w.mix(0)
			return
		}
		p := v.Pointer()
		if w.seen[p] {
			w.mix(1)
			return
		}
		w.seen[p] = true
		w.addRange(p, v.Type().Elem().Size())
		w.walk(v.Elem(), depth+1)
	case reflect.Slice:
		if v.IsNil() {
			w.mix(0)
			return
		}
		w.mix(uint64(v.Len()))
		w.mix(uint64(v.Cap()))
		full := v
		if v.Cap() > v.Len() {
			full = v.Slice(0, v.Cap())
		}
		if full.Len() > 0 {
			w.addRange(full.Pointer(), uintptr(full.Len())*v.Type().Elem().Size())
		}
		for i := 0; i < full.Len(); i++ {
			w.walk(full.Index(i), depth+1)
		}
	case reflect.Array:
		for i := 0; i < v.Len(); i++ {
			w.walk(v.Index(i), depth+1)
		}
	case reflect.Struct:
		for i := 0; i < v.NumField(); i++ {
			w.walk(v.Field(i), depth+1)
		}
	case reflect.Map:
		if v.IsNil() {
			w.mix(0)
			return
		}
		w.mix(uint64(v.Len()))
		// every entry is hashed on its own, starting from what had been seen when
		// the map was reached: otherwise an object shared by several entries would
		// be walked under whichever entry the (random) iteration order visits
		// first, and the sum would differ from one evaluation to the next
		var sum uint64
		base := w.seen
		union := map[uintptr]bool{}
		it := v.MapRange()
		for it.Next() {
			own := make(map[uintptr]bool, len(base))
			for k := range base {
				own[k] = true
			}
			sub := &walker{h: 0xcbf29ce484222325, seen: own, collect: w.collect}
			sub.walk(it.Key(), depth+1)
			sub.walk(it.Value(), depth+1)
			sum += sub.h
			w.ranges = append(w.ranges, sub.ranges...)
			for k := range own {
				union[k] = true
			}
		}
		for k := range union {
			w.seen[k] = true
		}
		w.mix(sum)
	case reflect.Interface:
		if v.IsNil() {
			w.mix(0)
			return
		}
		e := v.Elem()
		t := e.Type().String()
		for i := 0; i < len(t); i++ {
			w.mix(uint64(t[i]))
		}
		if opaqueType(e.Type()) {
			// the operating system's randomness reader: the state behind it is
			// crypto/rand's own (and everybody's), not the library's
			if e.Kind() == reflect.Pointer && !e.IsNil() {
				w.mix(uint64(e.Pointer()))
			}
			return
		}
		w.walk(e, depth+1)
	case reflect.Func, reflect.Chan, reflect.UnsafePointer:
		if v.IsNil() {
			w.mix(0)
		} else {
			w.mix(uint64(v.Pointer()))
		}
	}
}

// opaqueType reports types whose values are identified, not walked: the
// crypto/rand reader and what it is made of.
func opaqueType(t reflect.Type) bool {
	for t.Kind() == reflect.Pointer {
		t = t.Elem()
	}
	p := t.PkgPath()
	return p == "crypto/rand" || strings.HasPrefix(p, "crypto/internal/")
}

func deepHash(ptr reflect.Value, collect bool) (uint64, []MemRange) {
	w := &walker{h: 0xcbf29ce484222325, seen: map[uintptr]bool{}, collect: collect}
	w.walk(ptr.Elem(), 0)
	return w.h, w.ranges
}

// rawCheckMax is the largest variable (bytes) that is compared at every step.
const rawCheckMax = 16 << 10

// CaptureGlobals snapshots every package-level variable.
func CaptureGlobals() *Globals {
	g := &Globals{}
	for _, e := range secp.VerifGlobals() {
		pv := reflect.ValueOf(e.Ptr)
		if pv.Kind() != reflect.Pointer || pv.IsNil() {
			continue
		}
		g.names = append(g.names, e.Name)
		g.ptrs = append(g.ptrs, pv)
		h, rs := deepHash(pv, true)
		g.deep = append(g.deep, h)
		sz := pv.Type().Elem().Size()
		var view []byte
		if sz > 0 {
			view = unsafe.Slice((*byte)(pv.UnsafePointer()), sz)
		}
		if sz > rawCheckMax {
			// a large table (precomputed multiples, say) is compared through the
			// deep hash after every call only: a byte comparison at every
			// scheduling step would cost milliseconds per step
			view = nil
		}
		g.live = append(g.live, view)
		g.raw = append(g.raw, append([]byte(nil), view...))
		own := MemRange{pv.Pointer(), pv.Pointer() + sz}
		g.ranges = append(g.ranges, own)
		g.rnames = append(g.rnames, e.Name)
		for _, r := range rs {
			g.ranges = append(g.ranges, r)
			g.rnames = append(g.rnames, e.Name+" (reachable)")
		}
	}
	return g
}

// Count returns the number of monitored variables.
func (g *Globals) Count() int { return len(g.names) }

// Names returns the monitored variable names.
func (g *Globals) Names() []string { return g.names }

// CheckRaw compares each variable's own bytes with the snapshot. Cheap enough
// for every scheduler step.
func (g *Globals) CheckRaw() (string, bool) {
	for i, v := range g.live {
		s := g.raw[i]
		for j := range v {
			if v[j] != s[j] {
				return g.names[i], false
			}
		}
	}
	return "", true
}

// CheckDeep re-hashes everything reachable from each variable.
func (g *Globals) CheckDeep() (string, bool) {
	for i, p := range g.ptrs {
		h, _ := deepHash(p, false)
		if h != g.deep[i] {
			return g.names[i], false
		}
	}
	if l := secp.VerifLazy(); len(l) > 0 {
		return l[0] + ": its initialiser ran after package initialisation (state created on first use lives behind a function value)", false
	}
	return "", true
}

// Overlap reports the global whose own or reachable memory intersects r.
func (g *Globals) Overlap(r MemRange) (string, bool) {
	for i, gr := range g.ranges {
		if gr.Overlaps(r) {
			return g.rnames[i], true
		}
	}
	return "", false
}
