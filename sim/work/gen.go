package work

import (
	"encoding/hex"
	"math/big"
	"sync"

	secp "github.com/bytemare/secp256k1"

	"verifsim/entropy"
	"verifsim/model"
	"verifsim/prng"
	"verifsim/sched"
)

// Gen builds explicit runs from a PRNG. It tracks the model state of the task
// being generated so that operands can be aimed (P with -P, encodings of
// existing values, scalars next to n, ...). Tracking only steers generation;
// the interpreter never trusts it.
type Gen struct {
	r      *prng.R
	run    *Run
	m      *MState
	arena  bool
	shE    int // number of shared element variables available as arguments
	shS    int
	wE, wS map[string]float64
	// swarm knobs
	aliasRate  float64
	badRate    float64 // probability that a decoder input is invalid
	nilRate    float64
	shareRate  float64 // probability that a pointer argument is a shared variable
	retRate    float64 // probability that a decoder input is a previously returned slice
	scribRate  float64
	layoutW    []float64
	pairW      []float64
	allowRand  bool
	maxMsg     int
	pointCache []model.Point
	entropy    []byte
	events     []entropy.Event
}

// Deep selects the thorough tier's generation bounds (longer histories, more
// tasks). It is part of what a (seed, index) pair means, and is set once by the
// worker from its -tier flag; replay files are explicit and do not depend on it.
var Deep bool

var (
	two255 = new(big.Int).Lsh(big.NewInt(1), 255)
	two256 = new(big.Int).Lsh(big.NewInt(1), 256)
	nMinus = func(k int64) *big.Int { return new(big.Int).Sub(model.N, big.NewInt(k)) }
	// beta: a primitive cube root of unity mod p, computed (not typed in).
	beta = func() *big.Int {
		e := new(big.Int).Sub(model.P, big.NewInt(1))
		e.Div(e, big.NewInt(3))
		for g := int64(2); ; g++ {
			b := new(big.Int).Exp(big.NewInt(g), e, model.P)
			if b.Cmp(big.NewInt(1)) != 0 {
				return b
			}
		}
	}()
)

func be32(v *big.Int) []byte {
	var b [32]byte
	v.FillBytes(b[:])
	return b[:]
}

// scalarVal returns an integer in [0, n) biased towards the values where
// limb arithmetic, the bit ladder and the range check break.
func (g *Gen) scalarVal() *big.Int {
	r := g.r
	var v *big.Int
	switch r.Pick([]float64{2, 2, 3, 3, 4, 2, 1, 3, 2, 2, 1.5, 0.6}) {
	case 11:
		if v := g.harvestedValue(model.N, rInvN); v != nil {
			return v
		}
		return g.montScalar()
	case 10:
		return g.montScalar()
	case 9:
		// byte-level structure that neither edge values nor uniform draws have
		b := r.Bytes(32)
		switch r.N(4) {
		case 0: // one or two zero bytes somewhere
			b[r.N(32)] = 0
			if r.P(0.5) {
				b[r.N(32)] = 0
			}
		case 1: // both halves equal
			copy(b[16:], b[:16])
		case 2: // one 64-bit limb repeated
			for i := 8; i < 32; i++ {
				b[i] = b[i%8]
			}
		default: // a run of equal bytes
			c, at, n := byte(r.N(256)), r.N(24), 2+r.N(8)
			for i := at; i < at+n; i++ {
				b[i] = c
			}
		}
		v = new(big.Int).SetBytes(b)
	case 0:
		v = big.NewInt(int64(r.N(5)))
	case 1:
		v = nMinus(int64(1 + r.N(4)))
	case 2:
		k := uint(r.N(256))
		v = new(big.Int).Lsh(big.NewInt(1), k)
		switch r.N(3) {
		case 0:
			v.Sub(v, big.NewInt(1))
		case 1:
			v.Add(v, big.NewInt(1))
		}
	case 3:
		v = new(big.Int)
		for i := 0; i < 4; i++ {
			var limb uint64
			switch r.N(5) {
			case 0:
				limb = 0
			case 1:
				limb = 1
			case 2:
				limb = ^uint64(0)
			case 3:
				limb = 1 << 63
			default:
				limb = r.U64()
			}
			v.Lsh(v, 64)
			v.Or(v, new(big.Int).SetUint64(limb))
		}
	case 4:
		v = new(big.Int).SetBytes(r.Bytes(32))
	case 5:
		v = new(big.Int).SetBytes(r.Bytes(1 + r.N(16)))
	case 6:
		v = new(big.Int).Rsh(model.N, 1)
		v.Add(v, big.NewInt(int64(r.N(3))))
	case 7:
		v = new(big.Int).SetBytes(r.Bytes(32))
		v.SetBit(v, 255, 1)
	default:
		// neighbour of an existing scalar
		if len(g.m.MS) > 0 {
			if s := g.m.MS[r.N(len(g.m.MS))]; s != nil {
				v = new(big.Int).Add(s, big.NewInt(int64(r.N(3)-1)))
				if r.P(0.3) {
					v.Sub(model.N, s)
				}
			}
		}
		if v == nil {
			v = big.NewInt(1)
		}
	}
	return v.Mod(v, model.N)
}

// The library keeps field elements and scalars in Montgomery form (value times
// 2^256 modulo the modulus, four 64-bit limbs). A value whose *internal*
// representation is small, just below the modulus, or has zero / all-ones limbs
// is where a dropped carry or a final conditional subtraction decided on the
// wrong flag shows — and such values look perfectly random from outside. The
// generator therefore also draws values of the form k·2^-256 mod m for
// structured k. (This biases inputs only; verdicts never depend on it.)
var (
	rInvP = new(big.Int).ModInverse(two256, model.P)
	rInvN = new(big.Int).ModInverse(two256, model.N)
)

// structuredK returns an integer in [0, m) with the structure described above.
// gapBits is the bit length of 2^256 - m.
func (g *Gen) structuredK(m *big.Int, gapBits int) *big.Int {
	r := g.r
	k := new(big.Int)
	small := func() *big.Int {
		v := new(big.Int).SetBytes(r.Bytes(1 + (gapBits+8)/8))
		return v.Rsh(v, uint(r.N(gapBits+8)))
	}
	switch r.N(5) {
	case 0:
		k = small()
	case 1:
		k.Sub(m, small())
	case 2:
		k.Sub(two256, small()) // reduced below: 2^256 - j - m, just above the gap
	case 3:
		for i := 0; i < 4; i++ {
			var limb uint64
			switch r.N(4) {
			case 0:
				limb = 0
			case 1:
				limb = ^uint64(0)
			case 2:
				limb = 1 << uint(r.N(64))
			default:
				limb = r.U64()
			}
			k.Lsh(k, 64)
			k.Or(k, new(big.Int).SetUint64(limb))
		}
	default:
		k = big.NewInt(int64(r.N(16)))
	}
	return k.Mod(k, m)
}

var (
	harvestOnce sync.Once
	harvest     []*big.Int
)

// harvestedValue returns a 256-bit constant that the source of the library
// under test spells out as four 64-bit limbs (a dictionary, as fuzzers use),
// read as a plain integer or as a Montgomery representation, sometimes off by
// one, reduced modulo m. A comparison against a particular — possibly mistyped
// — constant cannot be met by chance; the constant itself can be offered.
func (g *Gen) harvestedValue(m, rInv *big.Int) *big.Int {
	harvestOnce.Do(func() {
		for _, c := range secp.VerifConstants() {
			v := new(big.Int)
			for i := 3; i >= 0; i-- {
				v.Lsh(v, 64)
				v.Or(v, new(big.Int).SetUint64(c[i]))
			}
			harvest = append(harvest, v)
		}
	})
	if len(harvest) == 0 {
		return nil
	}
	r := g.r
	v := new(big.Int).Set(harvest[r.N(len(harvest))])
	if r.P(0.6) {
		v.Mul(v, rInv)
	}
	if r.P(0.2) {
		v.Add(v, big.NewInt(int64(r.N(3)-1)))
	}
	return v.Mod(v, m)
}

// montScalar returns a scalar whose Montgomery representation is structured,
// or which combines with a scalar the task already holds into such a value.
func (g *Gen) montScalar() *big.Int {
	r := g.r
	v := g.structuredK(model.N, 129)
	v.Mul(v, rInvN)
	v.Mod(v, model.N)
	if len(g.m.MS) > 0 && r.P(0.4) {
		if a := g.m.MS[r.N(len(g.m.MS))]; a != nil && a.Sign() != 0 {
			if r.P(0.5) {
				v.Sub(v, a) // a + result has the structured representation
			} else {
				v.Mul(v, new(big.Int).ModInverse(a, model.N)) // a * result has it
			}
			v.Mod(v, model.N)
		}
	}
	return v
}

// cubeRootP returns a cube root of v modulo p when one exists
// (p = 7 mod 9: v^((p+2)/9) is one).
func cubeRootP(v *big.Int) (*big.Int, bool) {
	e := new(big.Int).Add(model.P, big.NewInt(2))
	e.Div(e, big.NewInt(9))
	x := new(big.Int).Exp(v, e, model.P)
	c := new(big.Int).Mul(x, x)
	c.Mul(c, x)
	c.Mod(c, model.P)
	return x, c.Cmp(new(big.Int).Mod(v, model.P)) == 0
}

// montPoint returns a curve point one of whose coordinates, or their square
// or cube (the intermediate values of decoding and of the group law), has a
// structured Montgomery representation.
func (g *Gen) montPoint() model.Point {
	r := g.r
	seven := big.NewInt(7)
	fromX := func(x *big.Int) (model.Point, bool) {
		rhs := new(big.Int).Mul(x, x)
		rhs.Mul(rhs, x)
		rhs.Add(rhs, seven)
		rhs.Mod(rhs, model.P)
		y, ok := model.SqrtP(rhs)
		if !ok {
			return model.Point{}, false
		}
		if r.P(0.5) {
			y.Sub(model.P, y)
		}
		return model.Point{X: x, Y: y}, true
	}
	fromY2 := func(y2 *big.Int) (model.Point, bool) {
		y, ok := model.SqrtP(y2)
		if !ok || y.Sign() == 0 {
			return model.Point{}, false
		}
		x, ok := cubeRootP(new(big.Int).Sub(y2, seven))
		if !ok {
			return model.Point{}, false
		}
		if r.P(0.5) {
			y.Sub(model.P, y)
		}
		return model.Point{X: x, Y: y}, true
	}
	fam := r.N(5)
	for try := 0; try < 48; try++ {
		v := g.structuredK(model.P, 33)
		if try > 0 && v.BitLen() < 200 {
			v.Add(v, big.NewInt(int64(try))) // walk on from the same neighbourhood
		}
		v.Mul(v, rInvP)
		v.Mod(v, model.P)
		var pt model.Point
		ok := false
		switch fam {
		case 0: // x itself
			pt, ok = fromX(v)
		case 1: // y itself
			pt, ok = fromY2(new(big.Int).Mod(new(big.Int).Mul(v, v), model.P))
			if ok && pt.Y.Cmp(v) != 0 {
				pt.Y.Sub(model.P, pt.Y)
			}
		case 2: // y^2 = x^3 + 7
			pt, ok = fromY2(v)
		case 3: // x^2
			if x, sq := model.SqrtP(v); sq {
				pt, ok = fromX(x)
			}
		default: // x^3
			if x, cb := cubeRootP(v); cb {
				pt, ok = fromX(x)
			}
		}
		if ok && model.OnCurve(pt.X, pt.Y) {
			return pt
		}
	}
	return g.cachedPoint()
}

// badScalarBytes returns an input the scalar decoder must reject.
func (g *Gen) badScalarBytes() []byte {
	r := g.r
	switch r.N(8) {
	case 0:
		return be32(model.N)
	case 1:
		return be32(new(big.Int).Add(model.N, big.NewInt(int64(1+r.N(3)))))
	case 2:
		return be32(new(big.Int).Sub(two256, big.NewInt(int64(1+r.N(3)))))
	case 3:
		// n with one limb raised
		v := new(big.Int).Set(model.N)
		v.Add(v, new(big.Int).Lsh(big.NewInt(1), uint(64*r.N(4))))
		if v.Cmp(two256) >= 0 {
			v = new(big.Int).Sub(two256, big.NewInt(1))
		}
		return be32(v)
	case 4:
		return r.Bytes([]int{1, 16, 31, 33, 48, 64}[r.N(6)])
	case 5:
		return []byte{}
	case 6:
		// random value in [n, 2^256)
		span := new(big.Int).Sub(two256, model.N)
		v := new(big.Int).SetBytes(r.Bytes(32))
		v.Mod(v, span)
		return be32(v.Add(v, model.N))
	default:
		b := be32(g.scalarVal())
		return append(b, 0)
	}
}

func (g *Gen) cachedPoint() model.Point {
	if len(g.pointCache) == 0 {
		gp := model.G()
		g.pointCache = append(g.pointCache, gp, model.Double(gp), model.Neg(gp), model.Add(model.Double(gp), gp))
	}
	if len(g.pointCache) < 24 && g.r.P(0.5) {
		p := model.EncodeToCurve(g.r.Bytes(8), []byte("verifsim-point"))
		g.pointCache = append(g.pointCache, p)
		return p
	}
	return g.pointCache[g.r.N(len(g.pointCache))]
}

// pointVal returns a group element aimed at the neighbourhood of the values
// the task already holds.
func (g *Gen) pointVal() model.Point {
	r := g.r
	var cur model.Point
	have := false
	if len(g.m.ME) > 0 {
		cur = g.m.ME[r.N(len(g.m.ME))]
		have = !cur.IsInf()
	}
	switch r.Pick([]float64{3, 2, 2, 1, 1, 1, 1, 2, 0.7, 0.7}) {
	case 9:
		return g.montPoint()
	case 8:
		return g.structuredXPoint()
	case 0:
		return g.cachedPoint()
	case 1:
		if have {
			return cur.Clone()
		}
	case 2:
		if have {
			return model.Neg(cur)
		}
	case 3:
		if have { // shares y with cur (curve endomorphism)
			x := new(big.Int).Mul(cur.X, beta)
			x.Mod(x, model.P)
			return model.Point{X: x, Y: new(big.Int).Set(cur.Y)}
		}
	case 4:
		if have { // shares x: that is -cur; use the endomorphism image of -cur instead
			x := new(big.Int).Mul(cur.X, beta)
			x.Mod(x, model.P)
			return model.Neg(model.Point{X: x, Y: new(big.Int).Set(cur.Y)})
		}
	case 5:
		return model.Inf()
	case 6:
		if have { // a small multiple of a value the task already holds
			return model.Mul(big.NewInt(int64(2+r.N(5))), cur)
		}
	default:
		k := g.scalarVal()
		if k.BitLen() > 16 && r.P(0.7) {
			k = big.NewInt(int64(1 + r.N(40)))
		}
		return model.Mul(k, model.G())
	}
	return g.cachedPoint()
}

// structuredXPoint returns a curve point whose x coordinate has the limb
// structure where carry chains and range checks of field code break: zero,
// all-ones or single-bit limbs, or a value just below p.
func (g *Gen) structuredXPoint() model.Point {
	r := g.r
	x := new(big.Int)
	if hv := g.harvestedValue(model.P, rInvP); hv != nil && r.P(0.2) {
		x = hv
	} else if r.P(0.25) {
		x.Sub(model.P, big.NewInt(int64(1+r.N(64))))
	} else {
		for i := 0; i < 4; i++ {
			var limb uint64
			switch r.N(5) {
			case 0:
				limb = 0
			case 1:
				limb = ^uint64(0)
			case 2:
				limb = 1 << uint(r.N(64))
			case 3:
				limb = ^uint64(0) << uint(r.N(64))
			default:
				limb = r.U64()
			}
			x.Lsh(x, 64)
			x.Or(x, new(big.Int).SetUint64(limb))
		}
		x.Mod(x, model.P)
	}
	for {
		rhs := new(big.Int).Mul(x, x)
		rhs.Mul(rhs, x)
		rhs.Add(rhs, big.NewInt(7))
		rhs.Mod(rhs, model.P)
		if y, ok := model.SqrtP(rhs); ok {
			if r.P(0.5) {
				y.Sub(model.P, y)
			}
			return model.Point{X: x, Y: y}
		}
		x.Add(x, big.NewInt(1))
		x.Mod(x, model.P)
	}
}

// tinyXPoint returns a curve point whose x is so small that x + p still fits
// in 32 bytes (a non-canonical alias of x that a decoder must reject).
func (g *Gen) tinyXPoint() model.Point {
	for {
		x := big.NewInt(int64(1 + g.r.N(4000)))
		rhs := new(big.Int).Mul(x, x)
		rhs.Mul(rhs, x)
		rhs.Add(rhs, big.NewInt(7))
		rhs.Mod(rhs, model.P)
		if y, ok := model.SqrtP(rhs); ok {
			if g.r.P(0.5) {
				y.Sub(model.P, y)
			}
			return model.Point{X: x, Y: y}
		}
	}
}

// tinyYPoint returns a curve point with a tiny y (so that y + p fits in 32
// bytes): x is a cube root of y^2 - 7, which exists for a third of the y.
func (g *Gen) tinyYPoint() model.Point {
	e := new(big.Int).Add(model.P, big.NewInt(2)) // p = 7 mod 9: c^((p+2)/9) is a cube root when one exists
	e.Div(e, big.NewInt(9))
	for {
		y := big.NewInt(int64(1 + g.r.N(4000)))
		v := new(big.Int).Mul(y, y)
		v.Sub(v, big.NewInt(7))
		v.Mod(v, model.P)
		x := new(big.Int).Exp(v, e, model.P)
		c := new(big.Int).Mul(x, x)
		c.Mul(c, x)
		c.Mod(c, model.P)
		if c.Cmp(v) == 0 && model.OnCurve(x, y) {
			return model.Point{X: x, Y: y}
		}
	}
}

// aliasCoordinates returns 32-byte coordinates of a curve point in which x,
// y or both are replaced by their non-canonical alias (value + p).
func (g *Gen) aliasCoordinates() (xb, yb []byte) {
	var pt model.Point
	which := g.r.N(3)
	if which == 1 {
		pt = g.tinyYPoint()
	} else {
		pt = g.tinyXPoint()
	}
	x, y := new(big.Int).Set(pt.X), new(big.Int).Set(pt.Y)
	switch which {
	case 0:
		x.Add(x, model.P)
	case 1:
		y.Add(y, model.P)
	default:
		x.Add(x, model.P)
		if yy := new(big.Int).Add(y, model.P); yy.Cmp(two256) < 0 {
			y = yy
		}
	}
	return be32(x), be32(y)
}

// goodElementBytes encodes p in a form the named decoder accepts.
func (g *Gen) goodElementBytes(p model.Point, kind string) []byte {
	switch kind {
	case "e.decodec":
		if p.IsInf() {
			p = model.G()
		}
		return model.EncodeCompressed(p)
	case "e.decodeu":
		if p.IsInf() {
			p = model.G()
		}
		return model.EncodeUncompressed(p)
	}
	if p.IsInf() {
		return []byte{0}
	}
	if g.r.P(0.5) {
		return model.EncodeUncompressed(p)
	}
	return model.EncodeCompressed(p)
}

// badElementBytes mutates a valid encoding into one that must be rejected
// (most of the time; some mutations stay valid, the model decides).
func (g *Gen) badElementBytes(p model.Point) []byte {
	r := g.r
	if p.IsInf() {
		p = model.G()
	}
	c := model.EncodeCompressed(p)
	u := model.EncodeUncompressed(p)
	addP := func(b []byte) []byte {
		v := new(big.Int).SetBytes(b)
		v.Add(v, model.P)
		if v.Cmp(two256) >= 0 {
			return nil
		}
		return be32(v)
	}
	switch r.N(15) {
	case 12, 13: // uncompressed form with a coordinate replaced by its alias value + p
		xb, yb := g.aliasCoordinates()
		return append(append([]byte{4}, xb...), yb...)
	case 14: // compressed form of a tiny-x point with x + p
		pt := g.tinyXPoint()
		return append([]byte{byte(2 + pt.Y.Bit(0))}, be32(new(big.Int).Add(pt.X, model.P))...)
	case 0:
		c[0] = []byte{0, 1, 4, 5, 6, 7, 0xff}[r.N(7)]
		return c
	case 1:
		u[0] = []byte{0, 2, 3, 5, 6, 7}[r.N(6)]
		return u
	case 2:
		return c[:len(c)-1-r.N(3)]
	case 3:
		return append(c, byte(r.N(256)))
	case 4:
		return u[:len(u)-1-r.N(3)]
	case 5:
		return append(u, 0)
	case 6: // x + p (only representable for tiny x; otherwise a random x >= p)
		if xp := addP(c[1:]); xp != nil {
			return append([]byte{c[0]}, xp...)
		}
		v := new(big.Int).Sub(two256, big.NewInt(int64(1+r.N(1000))))
		return append([]byte{c[0]}, be32(v)...)
	case 7: // y replaced by p - y with the prefix kept (wrong parity root) in uncompressed form: still on curve -> valid; flip a y bit instead
		u[64] ^= 1 << uint(r.N(8))
		return u
	case 8: // off-curve x for compressed
		for i := 0; i < 64; i++ {
			x := new(big.Int).SetBytes(r.Bytes(32))
			x.Mod(x, model.P)
			cand := append([]byte{byte(2 + r.N(2))}, be32(x)...)
			if _, err := model.DecodeCompressed(cand); err != nil {
				return cand
			}
		}
		return c[:5]
	case 9:
		return []byte{byte(1 + r.N(255))}
	case 10:
		return []byte{}
	default: // y >= p alias in uncompressed form
		if yp := addP(u[33:]); yp != nil {
			return append(append([]byte{4}, u[1:33]...), yp...)
		}
		copy(u[33:], be32(new(big.Int).Sub(two256, big.NewInt(1))))
		return u
	}
}

// ---------------------------------------------------------------------------
// byte arguments and their memory layout

func (g *Gen) addBacking(data []byte, note string) int {
	g.run.Backings = append(g.run.Backings, Backing{Hex: hex.EncodeToString(data), Note: note})
	return len(g.run.Backings) - 1
}

var layoutNames = []string{"exact", "spare1", "spareK", "inner", "inner-capped", "prefix-of-larger"}

// bytesArg places content in caller memory with a PRNG-chosen layout.
func (g *Gen) bytesArg(content []byte, role string) Bytes {
	r := g.r
	if !g.arena {
		if len(content) == 0 && r.P(0.5) {
			return Bytes{Nil: true}
		}
		b := g.addBacking(content, role+":heap")
		return Bytes{B: b, Len: len(content), Cap: len(content)}
	}
	if len(content) == 0 {
		switch r.N(3) {
		case 0:
			return Bytes{Nil: true}
		case 1:
			b := g.addBacking(nil, role+":empty")
			return Bytes{B: b}
		default:
			k := 1 + r.N(16)
			b := g.addBacking(r.Bytes(k), role+":empty-with-capacity")
			return Bytes{B: b, Off: r.N(k), Len: 0, Cap: 0}
		}
	}
	n := len(content)
	switch layoutNames[r.Pick(g.layoutW)] {
	case "exact":
		b := g.addBacking(content, role+":exact")
		return Bytes{B: b, Len: n, Cap: n}
	case "spare1":
		d := append(append([]byte{}, content...), r.Bytes(1)...)
		b := g.addBacking(d, role+":spare1")
		return Bytes{B: b, Len: n, Cap: n + 1}
	case "spareK":
		k := 2 + r.N(96)
		d := append(append([]byte{}, content...), r.Bytes(k)...)
		b := g.addBacking(d, role+":spareK")
		return Bytes{B: b, Len: n, Cap: n + 1 + r.N(k)}
	case "inner":
		a, k := 1+r.N(40), 1+r.N(40)
		d := append(append(r.Bytes(a), content...), r.Bytes(k)...)
		b := g.addBacking(d, role+":inner")
		return Bytes{B: b, Off: a, Len: n, Cap: n + r.N(k+1)}
	case "inner-capped":
		a, k := 1+r.N(40), 1+r.N(40)
		d := append(append(r.Bytes(a), content...), r.Bytes(k)...)
		b := g.addBacking(d, role+":inner-capped")
		return Bytes{B: b, Off: a, Len: n, Cap: n}
	default:
		k := 1 + r.N(64)
		d := append(append([]byte{}, content...), r.Bytes(k)...)
		b := g.addBacking(d, role+":prefix-of-larger")
		return Bytes{B: b, Len: n, Cap: n + k}
	}
}

var pairNames = []string{"separate", "dst-then-msg", "msg-then-dst", "same-view", "overlap", "dst-prefix-of-msg"}

// msgDst builds the (message, DST) argument pair of the hashing functions.
func (g *Gen) msgDst() (Bytes, Bytes) {
	r := g.r
	// lengths aimed at block and rule boundaries
	mlen := []int{0, 0, 1, 3, 16, 31, 32, 33, 54, 55, 56, 63, 64, 65, 119, 120, 128, 200, 512, 1000}[r.N(20)]
	if r.P(0.3) {
		mlen = r.N(g.maxMsg + 1)
	}
	dlen := []int{1, 2, 15, 16, 17, 31, 32, 48, 49, 64, 100, 200, 254, 255, 256, 257, 300, 512}[r.N(18)]
	if r.P(0.3) {
		dlen = 1 + r.N(300)
	}
	// now and then something big: a path that only exists for long inputs must
	// not stay out of reach (the arena holds backings of up to 8192 bytes)
	if r.P(0.02) {
		mlen = 1000 + r.N(6000)
	}
	if r.P(0.02) {
		dlen = 512 + r.N(3000)
	}
	if mlen+dlen > 7900 {
		dlen = 7900 - mlen
	}
	if r.P(g.badRate * 0.5) {
		dlen = 0
	}
	msg, dst := r.Bytes(mlen), r.Bytes(dlen)
	if !g.arena {
		return g.bytesArg(msg, "msg"), g.bytesArg(dst, "dst")
	}
	switch pairNames[r.Pick(g.pairW)] {
	case "dst-then-msg":
		if dlen == 0 {
			break
		}
		tail := r.Bytes(r.N(8))
		d := append(append(append([]byte{}, dst...), msg...), tail...)
		b := g.addBacking(d, "pair:dst-then-msg")
		capD := dlen
		switch r.N(3) {
		case 0:
			capD = len(d)
		case 1:
			capD = dlen + r.N(len(d)-dlen+1)
		}
		return Bytes{B: b, Off: dlen, Len: mlen, Cap: mlen + r.N(len(tail)+1)}, Bytes{B: b, Off: 0, Len: dlen, Cap: capD}
	case "msg-then-dst":
		if dlen == 0 {
			break
		}
		tail := r.Bytes(r.N(8))
		d := append(append(append([]byte{}, msg...), dst...), tail...)
		b := g.addBacking(d, "pair:msg-then-dst")
		return Bytes{B: b, Off: 0, Len: mlen, Cap: mlen + r.N(len(d)-mlen+1)}, Bytes{B: b, Off: mlen, Len: dlen, Cap: dlen + r.N(len(tail)+1)}
	case "same-view":
		if dlen == 0 {
			break
		}
		extra := r.Bytes(r.N(4))
		d := append(append([]byte{}, dst...), extra...)
		b := g.addBacking(d, "pair:same-view")
		v := Bytes{B: b, Len: dlen, Cap: dlen + r.N(len(extra)+1)}
		return v, v
	case "overlap":
		if dlen < 2 {
			break
		}
		total := dlen + r.N(64)
		d := r.Bytes(total + r.N(4))
		b := g.addBacking(d, "pair:overlap")
		moff := r.N(dlen)
		ml := r.N(total - moff + 1)
		return Bytes{B: b, Off: moff, Len: ml, Cap: ml + r.N(len(d)-moff-ml+1)}, Bytes{B: b, Off: 0, Len: dlen, Cap: dlen + r.N(len(d)-dlen+1)}
	case "dst-prefix-of-msg":
		if dlen == 0 || mlen < dlen {
			break
		}
		d := append([]byte{}, msg...)
		b := g.addBacking(d, "pair:dst-prefix-of-msg")
		return Bytes{B: b, Len: mlen, Cap: mlen}, Bytes{B: b, Len: dlen, Cap: dlen + r.N(mlen-dlen+1)}
	}
	return g.bytesArg(msg, "msg"), g.bytesArg(dst, "dst")
}

// ---------------------------------------------------------------------------
// operations

func (g *Gen) eRef(recv int) int {
	r := g.r
	if g.shE > 0 && r.P(g.shareRate) {
		return -(r.N(g.shE) + 2)
	}
	if recv >= 0 && r.P(g.aliasRate) {
		return recv
	}
	return r.N(len(g.m.ME))
}

func (g *Gen) sRef(recv int) int {
	r := g.r
	if g.shS > 0 && r.P(g.shareRate) {
		return -(r.N(g.shS) + 2)
	}
	if recv >= 0 && r.P(g.aliasRate) {
		return recv
	}
	return r.N(len(g.m.MS))
}

func (g *Gen) decodeInput(valid []byte, bad func() []byte) Bytes {
	if g.retRate > 0 && g.r.P(g.retRate) {
		return Bytes{Ret: 1 + g.r.N(1<<16)}
	}
	if g.r.P(g.badRate) {
		return g.bytesArg(bad(), "enc")
	}
	return g.bytesArg(valid, "enc")
}

func (g *Gen) elementOp() Op {
	r := g.r
	names := make([]string, 0, len(g.wE))
	ws := make([]float64, 0, len(g.wE))
	for _, k := range elemKinds {
		if w := g.wE[k]; w > 0 {
			names = append(names, k)
			ws = append(ws, w)
		}
	}
	k := names[r.Pick(ws)]
	recv := r.N(len(g.m.ME))
	op := Op{K: k, R: recv}
	switch k {
	case "e.set", "e.copy", "e.equal":
		op.A = []int{g.eRef(recv)}
	case "e.add", "e.sub":
		if r.P(g.nilRate) {
			op.A = []int{-1}
		} else {
			op.A = []int{g.eRef(recv)}
		}
	case "e.mul":
		if r.P(g.nilRate) {
			op.A = []int{-1}
		} else {
			op.A = []int{g.sRef(-1)}
		}
	case "e.decode", "e.unmarshal", "e.decodec", "e.decodeu":
		p := g.pointVal()
		op.B = []Bytes{g.decodeInput(g.goodElementBytes(p, k), func() []byte { return g.badElementBytes(p) })}
	case "e.decodexy":
		p := g.pointVal()
		if p.IsInf() {
			p = model.G()
		}
		x, y := be32(p.X), be32(p.Y)
		if r.P(g.badRate) {
			switch r.N(6) {
			case 4, 5:
				x, y = g.aliasCoordinates()
			case 0:
				y[31] ^= 1
			case 1:
				x[r.N(32)] ^= byte(1 << uint(r.N(8)))
			case 2:
				x = be32(new(big.Int).Sub(two256, big.NewInt(int64(1+r.N(900)))))
			default:
				y = be32(new(big.Int).Sub(two256, big.NewInt(int64(1+r.N(900)))))
			}
		}
		op.X = []string{hex.EncodeToString(x), hex.EncodeToString(y)}
	case "e.decodehex":
		p := g.pointVal()
		b := g.goodElementBytes(p, k)
		if r.P(g.badRate) {
			b = g.badElementBytes(p)
		}
		h := hex.EncodeToString(b)
		if r.P(g.badRate * 0.3) {
			switch r.N(3) {
			case 0:
				h += "0"
			case 1:
				h = "zz" + h
			default:
				h = "0x" + h
			}
		}
		if r.P(0.2) {
			h = upper(h)
		}
		op.H = h
	case "e.h2g", "e.e2g":
		m, d := g.msgDst()
		op.B = []Bytes{m, d}
	}
	return op
}

func upper(s string) string {
	b := []byte(s)
	for i, c := range b {
		if c >= 'a' && c <= 'f' {
			b[i] = c - 32
		}
	}
	return string(b)
}

var elemKinds = []string{"e.new", "e.basefn", "e.base", "e.identity", "e.set", "e.copy", "e.add", "e.sub", "e.double", "e.negate", "e.mul",
	"e.decode", "e.unmarshal", "e.decodec", "e.decodeu", "e.decodexy", "e.decodehex", "e.h2g", "e.e2g", "e.equal"}

var scalKinds = []string{"s.new", "s.zero", "s.one", "s.minusone", "s.setu64", "s.set", "s.copy", "s.add", "s.sub", "s.mul", "s.square", "s.invert",
	"s.pow", "s.cselect", "s.decode", "s.unmarshal", "s.decodehex", "s.random", "s.h2s", "s.equal"}

func (g *Gen) scalarOp() Op {
	r := g.r
	names := make([]string, 0, len(g.wS))
	ws := make([]float64, 0, len(g.wS))
	for _, k := range scalKinds {
		if w := g.wS[k]; w > 0 {
			names = append(names, k)
			ws = append(ws, w)
		}
	}
	k := names[r.Pick(ws)]
	recv := r.N(len(g.m.MS))
	op := Op{K: k, R: recv}
	switch k {
	case "s.setu64":
		switch r.N(4) {
		case 0:
			op.U = uint64(r.N(4))
		case 1:
			op.U = ^uint64(0) - uint64(r.N(2))
		case 2:
			op.U = 1 << uint(r.N(64))
		default:
			op.U = r.U64()
		}
	case "s.copy":
		op.A = []int{g.sRef(recv)}
	case "s.set", "s.add", "s.sub", "s.mul", "s.pow", "s.equal":
		if r.P(g.nilRate) {
			op.A = []int{-1}
		} else {
			op.A = []int{g.sRef(recv)}
		}
	case "s.cselect":
		a, b := g.sRef(recv), g.sRef(recv)
		if r.P(g.nilRate) {
			if r.P(0.5) {
				a = -1
			} else {
				b = -1
			}
		}
		op.A = []int{a, b}
		op.U = uint64(r.N(2))
	case "s.decode", "s.unmarshal":
		v := g.scalarVal()
		op.B = []Bytes{g.decodeInput(be32(v), g.badScalarBytes)}
	case "s.decodehex":
		b := be32(g.scalarVal())
		if r.P(g.badRate) {
			b = g.badScalarBytes()
		}
		h := hex.EncodeToString(b)
		if r.P(g.badRate * 0.3) {
			h += "f"
		}
		op.H = h
	case "s.h2s":
		m, d := g.msgDst()
		op.B = []Bytes{m, d}
	case "s.random":
		g.feedRandom()
	}
	return op
}

// feedRandom appends to the entropy stream enough blocks for one call of
// Random to succeed in a fault-free device (well-formed entropy, with the
// occasional rejected block in front).
func (g *Gen) feedRandom() {
	r := g.r
	for r.P(0.15) {
		if r.P(0.5) {
			g.entropy = append(g.entropy, make([]byte, 32)...)
		} else {
			g.entropy = append(g.entropy, be32(model.N)...)
		}
	}
	var blk []byte
	switch r.N(6) {
	case 0:
		v := new(big.Int).Add(model.N, big.NewInt(int64(1+r.N(1000))))
		blk = be32(v)
	case 1:
		blk = be32(new(big.Int).Sub(two256, big.NewInt(int64(1+r.N(1000)))))
	case 2:
		blk = be32(g.scalarVal())
		if new(big.Int).SetBytes(blk).Sign() == 0 {
			blk[31] = 1
		}
	default:
		blk = r.Bytes(32)
		if new(big.Int).Mod(new(big.Int).SetBytes(blk), model.N).Sign() == 0 {
			blk[31] ^= 1
		}
	}
	g.entropy = append(g.entropy, blk...)
}

// track applies op to the generator's model state.
func (g *Gen) track(op *Op) {
	var bs [][]byte
	for _, b := range op.B {
		bs = append(bs, g.contentOf(b))
	}
	mo, err := ModelEval(g.m, op, bs, nil)
	if err != nil {
		return
	}
	if op.K == "s.random" {
		g.m.MS[op.R] = big.NewInt(7) // unknown until execution; any value steers
		return
	}
	g.m.Apply(op, mo)
	if !IsElemOp(op.K) && g.m.MS[op.R] == nil {
		g.m.MS[op.R] = new(big.Int)
	}
}

func (g *Gen) contentOf(b Bytes) []byte {
	if b.Nil || b.Ret > 0 {
		return nil
	}
	d := g.run.Backings[b.B].Data()
	return d[b.Off : b.Off+b.Len : b.Off+b.Cap]
}

// gadget emits a short sequence aimed at a configuration that random choice
// reaches rarely.
func (g *Gen) gadget() []Op {
	r := g.r
	ne, ns := len(g.m.ME), len(g.m.MS)
	a, b := r.N(ne), r.N(ne)
	s := r.N(ns)
	dec := func(recv int, v *big.Int) Op {
		return Op{K: "s.decode", R: recv, B: []Bytes{g.bytesArg(be32(v), "enc")}}
	}
	switch r.N(10) {
	case 9: // a special scalar (dictionary, Montgomery-structured or edge value) as exponent, factor, addend and multiplier
		if ns < 2 {
			return nil
		}
		v := g.harvestedValue(model.N, rInvN)
		if v == nil || r.P(0.4) {
			v = g.scalarVal()
		}
		t := (s + 1 + r.N(ns-1)) % ns
		ops := []Op{dec(s, v)}
		for _, k := range []string{"s.pow", "s.mul", "s.add", "s.sub"} {
			if r.P(0.6) {
				ops = append(ops, Op{K: k, R: t, A: []int{s}})
			}
		}
		if r.P(0.5) {
			ops = append(ops, Op{K: "e.mul", R: a, A: []int{s}})
		}
		return ops
	case 0: // P + (-P) where both went through arithmetic (Z != 1 on both sides)
		return []Op{{K: "e.set", R: b, A: []int{a}}, {K: "e.double", R: b}, {K: "e.sub", R: b, A: []int{a}}, {K: "e.negate", R: b}, {K: "e.add", R: b, A: []int{a}}}
	case 1: // the same point in two representations, then compare / subtract / add
		p := g.m.ME[a]
		return []Op{{K: "e.decode", R: b, B: []Bytes{g.bytesArg(g.goodElementBytes(p, "e.decode"), "enc")}}, {K: "e.equal", R: a, A: []int{b}}, {K: "e.sub", R: b, A: []int{a}}, {K: "e.add", R: b, A: []int{a}}}
	case 2: // [n-1]P + P and [n]P via scalar arithmetic
		return []Op{{K: "s.minusone", R: s}, {K: "e.set", R: b, A: []int{a}}, {K: "e.mul", R: b, A: []int{s}}, {K: "e.add", R: b, A: []int{a}}}
	case 3: // multiply by a scalar with the top bit set
		v := new(big.Int).SetBytes(r.Bytes(32))
		v.SetBit(v, 255, 1)
		v.Mod(v, model.N)
		if v.Bit(255) == 0 {
			v = nMinus(int64(1 + r.N(1000)))
		}
		return []Op{dec(s, v), {K: "e.mul", R: a, A: []int{s}}}
	case 4: // identity by several routes, then used as both operands
		return []Op{{K: "e.set", R: b, A: []int{a}}, {K: "e.sub", R: b, A: []int{b}}, {K: "e.add", R: b, A: []int{b}}, {K: "e.double", R: b}, {K: "e.negate", R: b}, {K: "e.add", R: a, A: []int{b}}}
	case 5: // [0]P, then identity as a ladder input
		return []Op{{K: "s.zero", R: s}, {K: "e.mul", R: b, A: []int{s}}, {K: "s.setu64", R: s, U: uint64(2 + r.N(50))}, {K: "e.mul", R: b, A: []int{s}}}
	case 6: // k and n-k
		v := g.scalarVal()
		return []Op{dec(s, v), {K: "e.set", R: b, A: []int{a}}, {K: "e.mul", R: b, A: []int{s}}, dec(s, model.SMod(new(big.Int).Neg(v))), {K: "e.mul", R: a, A: []int{s}}, {K: "e.add", R: a, A: []int{b}}}
	case 7: // scalar near-n arithmetic with aliasing
		return []Op{{K: "s.minusone", R: s}, {K: "s.add", R: s, A: []int{s}}, {K: "s.mul", R: s, A: []int{s}}, {K: "s.invert", R: s}, {K: "s.pow", R: s, A: []int{s}}}
	default: // points sharing a y coordinate
		p := g.m.ME[a]
		if p.IsInf() {
			p = model.G()
		}
		x := new(big.Int).Mul(p.X, beta)
		x.Mod(x, model.P)
		q := model.Point{X: x, Y: p.Y}
		return []Op{{K: "e.decode", R: a, B: []Bytes{g.bytesArg(model.EncodeCompressed(p), "enc")}}, {K: "e.decode", R: b, B: []Bytes{g.bytesArg(model.EncodeUncompressed(q), "enc")}}, {K: "e.equal", R: a, A: []int{b}}, {K: "e.add", R: a, A: []int{b}}}
	}
}

func (g *Gen) emit(ops *[]Op, op Op) {
	g.track(&op)
	*ops = append(*ops, op)
}

// program generates n operations for one task.
func (g *Gen) program(n int, pE, pGadget float64) []Op {
	var ops []Op
	for len(ops) < n {
		switch {
		case g.scribRate > 0 && g.r.P(g.scribRate):
			ops = append(ops, Op{K: "scribble", U: g.r.U64()})
		case g.r.P(pGadget):
			for _, o := range g.gadget() {
				g.emit(&ops, o)
			}
		case g.r.P(pE):
			g.emit(&ops, g.elementOp())
		default:
			g.emit(&ops, g.scalarOp())
		}
	}
	return ops
}

// swarm draws per-run weights: each family is switched off with probability
// off, otherwise gets a log-uniform weight.
func swarm(r *prng.R, kinds []string, base map[string]float64, off float64) map[string]float64 {
	w := map[string]float64{}
	for _, k := range kinds {
		b, ok := base[k]
		if !ok {
			b = 1
		}
		if b == 0 || r.P(off) {
			continue
		}
		w[k] = b * (0.25 + 3.75*r.F()*r.F())
	}
	if len(w) == 0 {
		w[kinds[r.N(len(kinds))]] = 1
	}
	return w
}

var baseE = map[string]float64{"e.new": 0.3, "e.basefn": 0.4, "e.base": 0.5, "e.identity": 0.4, "e.set": 1, "e.copy": 1, "e.add": 2.5, "e.sub": 2.5, "e.double": 1.5,
	"e.negate": 1.2, "e.mul": 1.5, "e.decode": 1.5, "e.unmarshal": 0.4, "e.decodec": 0.5, "e.decodeu": 0.5, "e.decodexy": 0.5, "e.decodehex": 0.4, "e.h2g": 0.5, "e.e2g": 0.4, "e.equal": 0.5}

var baseS = map[string]float64{"s.new": 0.2, "s.zero": 0.3, "s.one": 0.4, "s.minusone": 0.5, "s.setu64": 0.8, "s.set": 0.8, "s.copy": 0.8, "s.add": 1.5, "s.sub": 1.5, "s.mul": 1.5,
	"s.square": 0.8, "s.invert": 0.8, "s.pow": 0.6, "s.cselect": 0.6, "s.decode": 2, "s.unmarshal": 0.3, "s.decodehex": 0.4, "s.random": 0.3, "s.h2s": 0.4, "s.equal": 0.3}

func newGen(r *prng.R, run *Run) *Gen {
	g := &Gen{r: r, run: run, arena: run.Arena, m: NewMState(run.NE, run.NS), maxMsg: 300}
	g.wE = swarm(r, elemKinds, baseE, 0.2)
	g.wS = swarm(r, scalKinds, baseS, 0.2)
	g.aliasRate = r.F() * 0.6
	g.badRate = r.F() * 0.4
	g.nilRate = r.F() * 0.1
	g.layoutW = make([]float64, len(layoutNames))
	for i := range g.layoutW {
		if !r.P(0.25) {
			g.layoutW[i] = 0.2 + r.F()
		}
	}
	g.layoutW[r.N(len(g.layoutW))] += 0.5
	g.pairW = make([]float64, len(pairNames))
	for i := range g.pairW {
		if !r.P(0.25) {
			g.pairW[i] = 0.2 + r.F()
		}
	}
	g.pairW[0] += 0.5
	return g
}

func (g *Gen) finishEntropy() {
	g.run.Entropy = entropy.Script{Stream: g.entropy, Hex: hex.EncodeToString(g.entropy), Events: g.events, Endless: true}
}

// GenC10: one task, long aliased histories, heap memory, fault-free entropy.
func GenC10(seed, index uint64) *Run {
	r := prng.New(prng.Mix(seed, index))
	run := &Run{Prop: "C10", Seed: seed, Index: index, Build: "plain", NE: 2 + r.N(5), NS: 2 + r.N(5), ObsAll: true}
	g := newGen(r, run)
	g.wS["s.random"] = 0 // what Random returns is C18's statement
	n := 1 + r.N(40)
	if r.P(0.3) {
		n = 1 + r.N(8)
	}
	if Deep && r.P(0.3) {
		n = 40 + r.N(120)
	}
	pE := 0.35 + 0.5*r.F()
	run.Tasks = [][]Op{g.program(n, pE, 0.08*r.F()*2)}
	// observation pattern: usually everything after every call; in a quarter of
	// the runs most calls go unobserved (so that one call consumes exactly what
	// the previous one left behind), and the observer groups run in another order
	run.ObsOrder = r.N(3)
	quiet := 0.0
	if r.P(0.25) {
		quiet = []float64{0.5, 0.8, 1.0}[r.N(3)]
		ops := run.Tasks[0]
		for i := range ops {
			if i < len(ops)-1 && r.P(quiet) {
				ops[i].Q = true
			}
		}
	}
	g.finishEntropy()
	run.Config = map[string]any{"alias_rate": g.aliasRate, "bad_rate": g.badRate, "nil_rate": g.nilRate, "p_element": pE, "quiet_rate": quiet}
	return run
}

// GenC15: one task, every byte argument in the guarded arena, every returned
// slice retained and checked for freshness, caller scribbles as extra steps.
func GenC15(seed, index uint64) *Run {
	r := prng.New(prng.Mix(seed, index))
	run := &Run{Prop: "C15", Seed: seed, Index: index, Build: "plain", NE: 2 + r.N(3), NS: 2 + r.N(3), ObsAll: true, Arena: true, Returns: true}
	g := newGen(r, run)
	g.wS["s.random"] = 0
	// memory-facing operations get more weight here
	for _, k := range []string{"e.h2g", "e.e2g", "e.decode", "e.decodec", "e.decodeu", "e.unmarshal"} {
		if g.wE[k] > 0 || r.P(0.7) {
			g.wE[k] = g.wE[k]*2 + 1
		}
	}
	for _, k := range []string{"s.h2s", "s.decode", "s.unmarshal", "s.pow"} {
		if g.wS[k] > 0 || r.P(0.7) {
			g.wS[k] = g.wS[k]*2 + 1
		}
	}
	g.retRate = 0.15 * r.F()
	g.scribRate = 0.25 * r.F()
	n := 1 + r.N(24)
	if Deep && r.P(0.3) {
		n = 24 + r.N(60)
	}
	pE := 0.4 + 0.4*r.F()
	run.Tasks = [][]Op{g.program(n, pE, 0.05)}
	// now and then a burst of 2^8..2^17 (2^19 in the deep tier) encoding calls in
	// a row somewhere in the history (see Env.burst)
	pBurst := 1.0 / 800
	if Deep {
		pBurst = 1.0 / 250
	}
	if r.P(pBurst) {
		maxLog := 17
		if Deep {
			maxLog = 19
		}
		count := 1 << uint(8+r.N(maxLog-7))
		count += r.N(count)
		ops := run.Tasks[0]
		at := r.N(len(ops) + 1)
		b := Op{K: "burst", R: r.N(run.NE), U: uint64(count)}
		run.Tasks[0] = append(append(append([]Op{}, ops[:at]...), b), ops[at:]...)
	}
	g.finishEntropy()
	run.Config = map[string]any{"alias_rate": g.aliasRate, "bad_rate": g.badRate, "ret_rate": g.retRate, "scribble_rate": g.scribRate}
	return run
}

// GenC16: a shared read-only pool built by a sequential setup programme, then
// 2..8 tasks that use the pool as arguments only.
func GenC16(seed, index uint64, build string, funcs, hot, sharedHot []string) *Run {
	r := prng.New(prng.Mix(seed, index))
	run := &Run{Prop: "C16", Seed: seed, Index: index, Build: build, NE: 1 + r.N(3), NS: 1 + r.N(3), Arena: true}
	run.ObsAll = r.P(0.3)
	run.Aux = r.P(0.5)
	g := newGen(r, run)
	// setup: make the shared variables interesting (Z != 1, identities, near-n scalars)
	g.wE["e.equal"] = 0
	g.wS["s.equal"] = 0
	g.wS["s.random"] = 0
	for i := 0; i < run.NE; i++ {
		if r.P(0.85) {
			g.emit(&run.Setup, Op{K: "e.decode", R: i, B: []Bytes{g.bytesArg(g.goodElementBytes(g.pointVal(), "e.decode"), "enc")}})
			if r.P(0.6) { // leave the shared element in a non-normalised representation
				g.emit(&run.Setup, Op{K: "e.double", R: i})
				if r.P(0.5) {
					g.emit(&run.Setup, Op{K: "e.negate", R: i})
				}
			}
		}
	}
	for i := 0; i < run.NS; i++ {
		if r.P(0.85) {
			g.emit(&run.Setup, Op{K: "s.decode", R: i, B: []Bytes{g.bytesArg(be32(g.scalarVal()), "enc")}})
		}
	}
	run.Setup = append(run.Setup, g.program(r.N(8), 0.6, 0.15)...)
	// byte arguments shared by several tasks: the same message / DST views are
	// handed to more than one task (the statement speaks of sharing "message
	// and DST slices"; a per-DST cache only misbehaves when two callers use
	// the same tag)
	var sharedPairs [][2]Bytes
	for i, k := 0, 1+r.N(3); i < k; i++ {
		m, d := g.msgDst()
		sharedPairs = append(sharedPairs, [2]Bytes{m, d})
	}
	// shared state for the tasks
	shared := g.m
	nt := 2 + r.N(3)
	if r.P(0.25) || (Deep && r.P(0.4)) {
		nt = 2 + r.N(7)
	}
	heavy := 0.0
	for ti := 0; ti < nt; ti++ {
		tg := newGen(r, run)
		tg.m = NewMState(run.NE, run.NS)
		tg.m.ShME, tg.m.ShMS = shared.ME, shared.MS
		for i, s := range tg.m.ShMS {
			if s == nil {
				tg.m.ShMS[i] = new(big.Int)
			}
		}
		tg.shE, tg.shS = run.NE, run.NS
		tg.shareRate = 0.4 + 0.6*r.F()
		tg.entropy, tg.events = g.entropy, g.events
		// expensive operations are rationed so that most runs stay short
		tg.wE["e.mul"] *= 0.3
		tg.wS["s.random"] *= 0.5
		_ = heavy
		// most tasks start by loading their variables from the shared pool, so
		// that their first real call already works on interesting values
		var ops []Op
		if r.P(0.8) {
			for i := 0; i < run.NE; i++ {
				if r.P(0.7) {
					k := "e.set"
					if r.P(0.3) {
						k = "e.copy"
					}
					tg.emit(&ops, Op{K: k, R: i, A: []int{-(r.N(run.NE) + 2)}})
				}
			}
			for i := 0; i < run.NS; i++ {
				if r.P(0.7) {
					k := "s.set"
					if r.P(0.3) {
						k = "s.copy"
					}
					tg.emit(&ops, Op{K: k, R: i, A: []int{-(r.N(run.NS) + 2)}})
				}
			}
		}
		n := 1 + r.N(6)
		if r.P(0.2) {
			n = 1 + r.N(8)
		}
		body := tg.program(n, 0.4+0.5*r.F(), 0.03)
		if len(body) > 10 {
			body = body[:10]
		}
		for bi := range body {
			switch body[bi].K {
			case "e.h2g", "e.e2g", "s.h2s":
				if r.P(0.5) {
					pr := sharedPairs[r.N(len(sharedPairs))]
					body[bi].B = []Bytes{pr[0], pr[1]}
					if r.P(0.3) { // same tag, own message
						body[bi].B[0] = tg.bytesArg(r.Bytes(r.N(80)), "msg")
					}
				}
			}
		}
		if r.P(0.15) {
			// fixed-base multiplication, the commonest use of the group
			k := "e.basefn"
			if r.P(0.5) {
				k = "e.base"
			}
			body = append(body, Op{K: k, R: 0}, Op{K: "e.mul", R: 0, A: []int{-(r.N(run.NS) + 2)}})
		}
		ops = append(ops, body...)
		run.Tasks = append(run.Tasks, ops)
		g.entropy, g.events = tg.entropy, tg.events
	}
	g.finishEntropy()
	// schedule policy
	switch r.Pick([]float64{3, 3, 3, 1, 0.3}) {
	case 0:
		run.Sched = sched.Spec{Policy: "pct", D: 1 + r.N(6)}
	case 1:
		p := 1e-5
		for i, k := 0, r.N(10); i < k; i++ {
			p *= 3.2
		}
		if p > 0.3 {
			p = 0.3
		}
		run.Sched = sched.Spec{Policy: "walk", P: p}
	case 2:
		var fs []string
		q := 0.0
		if len(sharedHot) > 0 && r.P(0.5) {
			// functions that write state which outlives the call (package-level
			// variables, variables captured by closures) come first
			for i, k := 0, 1+r.N(2); i < k; i++ {
				fs = append(fs, sharedHot[r.N(len(sharedHot))])
			}
			if r.P(0.5) {
				// and some ordinary overlap elsewhere
				q = 1e-5
				for i, k := 0, r.N(7); i < k; i++ {
					q *= 3.2
				}
			}
		} else if len(hot) > 0 && r.P(0.6) {
			// aim at the functions that touch package-level state or
			// synchronisation: that is where a switch can tear shared state
			for i, k := 0, 1+r.N(3); i < k; i++ {
				fs = append(fs, hot[r.N(len(hot))])
			}
		} else if len(funcs) > 0 {
			for i, k := 0, 1+r.N(4); i < k; i++ {
				fs = append(fs, funcs[r.N(len(funcs))])
			}
		}
		run.Sched = sched.Spec{Policy: "site", P: 0.05 + 0.95*r.F()*r.F(), Funcs: fs, Q: q}
	case 3:
		run.Sched = sched.Spec{Policy: "rr", K: uint64(1 + r.N(2000))}
	default:
		run.Sched = sched.Spec{Policy: "serial"}
	}
	run.Config = map[string]any{"tasks": nt}
	return run
}

// GenC18: entropy scripts with faults, 1..4 tasks each calling Random a few
// times. Single-task runs use the uninstrumented build.
func GenC18(seed, index uint64, build string) *Run {
	r := prng.New(prng.Mix(seed, index))
	run := &Run{Prop: "C18", Seed: seed, Index: index, Build: build, NE: 1, NS: 2, ObsAll: true}
	nt := 1
	if build != "plain" {
		nt = 1 + r.N(4)
	}
	calls := 0
	for ti := 0; ti < nt; ti++ {
		n := 1 + r.N(4)
		var ops []Op
		for i := 0; i < n; i++ {
			ops = append(ops, Op{K: "s.random", R: r.N(run.NS)})
			calls++

		}
		run.Tasks = append(run.Tasks, ops)
	}
	// stream: blocks biased to the values that matter
	var stream []byte
	nblocks := calls + r.N(2*calls+2)
	if r.P(0.15) {
		nblocks = r.N(calls + 1) // starve the source
	}
	pZero, pN, pBig := 0.25*r.F(), 0.25*r.F(), 0.4*r.F()
	for i := 0; i < nblocks; i++ {
		switch {
		case r.P(pZero):
			stream = append(stream, make([]byte, 32)...)
		case r.P(pN):
			stream = append(stream, be32(model.N)...)
		case r.P(pBig):
			switch r.N(4) {
			case 0:
				stream = append(stream, be32(new(big.Int).Add(model.N, big.NewInt(int64(1+r.N(5)))))...)
			case 1:
				stream = append(stream, be32(new(big.Int).Sub(two256, big.NewInt(int64(1+r.N(5)))))...)
			case 2:
				// differs from n in one limb only
				v := new(big.Int).Set(model.N)
				v.Add(v, new(big.Int).Lsh(big.NewInt(int64(1+r.N(3))), uint(64*r.N(2))))
				stream = append(stream, be32(v)...)
			default:
				span := new(big.Int).Sub(two256, model.N)
				v := new(big.Int).SetBytes(r.Bytes(32))
				v.Mod(v, span)
				stream = append(stream, be32(v.Add(v, model.N))...)
			}
		case r.P(0.1):
			stream = append(stream, be32(nMinus(int64(1+r.N(3))))...)
		case r.P(0.1):
			stream = append(stream, be32(big.NewInt(int64(1+r.N(3))))...)
		default:
			stream = append(stream, r.Bytes(32)...)
		}
	}
	// a long run of rejected blocks (0 or n) somewhere in the stream: the retry
	// loop has to keep drawing however long the run is
	if r.P(0.15) {
		k := 1 + r.N(20)
		var runb []byte
		for i := 0; i < k; i++ {
			if r.P(0.5) {
				runb = append(runb, make([]byte, 32)...)
			} else {
				runb = append(runb, be32(model.N)...)
			}
		}
		at := 32 * r.N(len(stream)/32+1)
		stream = append(append(append([]byte{}, stream[:at]...), runb...), stream[at:]...)
	}
	if r.P(0.2) && len(stream) > 0 {
		stream = stream[:len(stream)-1-r.N(min(31, len(stream)))]
	}
	// faults
	var ev []entropy.Event
	pFault := 0.0
	if !r.P(0.25) {
		pFault = 0.02 + 0.25*r.F()*r.F()
	}
	errRate := 0.3 * r.F()
	for off := 0; off < len(stream); off++ {
		if !r.P(pFault / 8) {
			continue
		}
		switch {
		case r.P(errRate):
			kind := []string{"eof", "ueof", "injected"}[r.N(3)]
			if r.P(0.3) {
				kind = entropy.ErrKinds[r.N(len(entropy.ErrKinds))]
			}
			e := entropy.Event{Off: off, Kind: entropy.ErrData, Err: kind}
			if r.P(0.6) {
				e.N = 1 + r.N(40)
			}
			ev = append(ev, e)
		case r.P(0.2):
			ev = append(ev, entropy.Event{Off: off, Kind: entropy.Zero})
		default:
			ev = append(ev, entropy.Event{Off: off, Kind: entropy.Short, N: 1 + r.N(31)})
		}
	}
	// aimed faults: exactly at a block boundary, and one byte before it
	if len(stream) >= 64 && r.P(0.3) {
		b := 32 * (1 + r.N(len(stream)/32))
		if b < len(stream) {
			ev = append(ev, entropy.Event{Off: b - 1, Kind: entropy.ErrData, N: 1, Err: "injected"})
		}
	}
	ev = sortEvents(ev)
	sc := entropy.Script{Stream: stream, Hex: hex.EncodeToString(stream), Events: ev}
	if r.P(0.3) {
		sc.MaxChunk = 1 + r.N(40)
	}
	// one script in six is served by a device that is an io.ByteReader too
	sc.ByteReader = r.P(1.0 / 6)
	// now and then a very long run of rejected blocks (up to 2^17, in the deep
	// tier 2^20): "skipped by drawing again" has no limit in the statement, a
	// give-up counter in the implementation would. Single caller only (the run
	// costs a few hundred thousand loop iterations).
	pLong := 1.0 / 1500
	if Deep {
		pLong = 1.0 / 300
	}
	if nt == 1 && build == "plain" && r.P(pLong) {
		maxLog := 17
		if Deep {
			maxLog = 20
		}
		count := 1 << uint(6+r.N(maxLog-5))
		count += r.N(count)
		rep := &entropy.Repeat{At: 32 * r.N(len(stream)/32+1), Count: count}
		switch r.N(3) {
		case 0:
			rep.Blocks = []string{hex.EncodeToString(make([]byte, 32))}
		case 1:
			rep.Blocks = []string{hex.EncodeToString(be32(model.N))}
		default:
			rep.Blocks = []string{hex.EncodeToString(make([]byte, 32)), hex.EncodeToString(be32(model.N))}
		}
		if len(stream) == 0 || r.P(0.7) {
			// make sure an acceptable block follows the run
			stream = append(append(append([]byte{}, stream[:rep.At]...), be32(g1toN(r))...), stream[rep.At:]...)
			sc.Hex = hex.EncodeToString(stream)
		}
		for i := range sc.Events {
			if sc.Events[i].Off >= rep.At {
				sc.Events[i].Off += 32 * count
			}
		}
		if sc.MaxChunk > 0 && sc.MaxChunk < 16 {
			sc.MaxChunk = 16 + r.N(48)
		}
		sc.Rep = rep
		sc.Stream = nil
	}
	run.Entropy = sc
	if nt > 1 {
		p := 0.001 + 0.3*r.F()*r.F()
		switch r.N(3) {
		case 0:
			run.Sched = sched.Spec{Policy: "walk", P: p}
		case 1:
			run.Sched = sched.Spec{Policy: "site", P: 0.3 + 0.7*r.F(), Funcs: []string{"<entropy device>", "Scalar.Random"}}
		default:
			run.Sched = sched.Spec{Policy: "pct", D: 1 + r.N(5)}
		}
	} else {
		run.Sched = sched.Spec{Policy: "serial"}
	}
	return run
}

// g1toN returns a uniformly drawn integer in [1, n-1].
func g1toN(r *prng.R) *big.Int {
	v := new(big.Int).SetBytes(r.Bytes(32))
	v.Mod(v, new(big.Int).Sub(model.N, big.NewInt(1)))
	return v.Add(v, big.NewInt(1))
}

func sortEvents(ev []entropy.Event) []entropy.Event {
	for i := 1; i < len(ev); i++ {
		for j := i; j > 0 && ev[j].Off < ev[j-1].Off; j-- {
			ev[j], ev[j-1] = ev[j-1], ev[j]
		}
	}
	// at most one event per offset
	var out []entropy.Event
	for i, e := range ev {
		if i > 0 && e.Off == ev[i-1].Off {
			continue
		}
		out = append(out, e)
	}
	return out
}
