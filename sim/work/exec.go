package work

import (
	"bytes"
	crand "crypto/rand"
	"encoding/hex"
	"errors"
	"fmt"
	"io"
	"math/big"
	"os"
	"reflect"
	"runtime/debug"
	"strings"
	"unsafe"

	secp "github.com/bytemare/secp256k1"

	"verifsim/arena"
	"verifsim/entropy"
	"verifsim/model"
	"verifsim/prng"
	"verifsim/sched"
)

// SiteEntropy is the pseudo yield site of the entropy device.
const SiteEntropy = 0xffffffff

type retained struct {
	img       []byte // contents when it was returned
	b         []byte
	what      string
	op        int
	r         MemRange
	scribbled bool // the caller wrote into it (or, in the dry pass, would have)
	input     bool // handed back to the library as an input
}

type taskState struct {
	extra  []byte // results of the current call that belong in the observation digest
	id     int
	curOp  int
	curOpP *Op
	E      []*secp.Element
	S      []*secp.Scalar
	ME     []model.Point
	MS     []*big.Int
	rets   []retained
	// entropy reads attributed to this task, not yet consumed by the model
	rdFrom int
	digest []uint64
}

// Env executes one Run.
type Env struct {
	R        *Run
	Ar       *arena.Arena
	G        *Globals
	Dev      *entropy.Device
	Sch      *sched.S
	St       *Stats
	Sites    *SiteTable
	backs    [][]byte
	viol     *Violation
	abort    bool
	sharedE  []*secp.Element
	sharedS  []*secp.Scalar
	shME     []model.Point
	shMS     []*big.Int
	shRawE   [][]byte
	shRawS   [][]byte
	shDeepE  []uint64 // deep hashes of the shared variables (only when their types hold pointers)
	shDeepS  []uint64
	solo     [][]uint64
	phase    string
	curTask  *taskState
	curOp    int
	curKind  string
	incon    error
	heapIn   []MemRange
	all      []*taskState
	base     []uint64         // C15: observation digests of the scribble-free execution
	dry      bool             // C15: scribble steps select their slice but do not write
	rq       map[int][][]byte // per task: candidate queues of delivered, unused entropy
	wide     bool             // a read request larger than one block has been seen (buffering implementation)
	pool     bool             // C18, several callers: judged by the pool rule
	randHist []*big.Int       // every value Random has returned in this run
	protect0 uint64
	poisoned bool
	schedIDs []int  // scheduler task index -> task id of the current scheduled phase
	seen     []bool // yield sites reached (shared across the runs of a worker)
	Va       *arena.Vars
	useVa    bool // C15: the task's variables live in guarded pages
}

// noMGlob switches the global-state monitor off. It exists only for the
// sensitivity experiments of DESIGN.md (does the schedule search alone find
// the wrong results?) and is never set by a registered command.
var noMGlob = os.Getenv("VERIF_EXPERIMENT_NO_MGLOB") == "1"

var elemSize = unsafe.Sizeof(secp.Element{})
var scalSize = unsafe.Sizeof(secp.Scalar{})

// PointerFree reports whether the shared argument types can live in the arena.
func PointerFree() bool {
	// "can live in the guarded arena": no pointers inside (untracked memory
	// must not hold any) and no larger than a page
	return !hasPointers(reflect.TypeOf(secp.Element{})) && !hasPointers(reflect.TypeOf(secp.Scalar{})) && elemSize <= 4096 && scalSize <= 4096
}

func hasPointers(t reflect.Type) bool {
	switch t.Kind() {
	case reflect.Pointer, reflect.Slice, reflect.Map, reflect.Chan, reflect.Func, reflect.Interface, reflect.String, reflect.UnsafePointer:
		return true
	case reflect.Array:
		if t.Len() == 0 {
			return false
		}
		return hasPointers(t.Elem())
	case reflect.Struct:
		for i := 0; i < t.NumField(); i++ {
			if hasPointers(t.Field(i).Type) {
				return true
			}
		}
	}
	return false
}

func (x *Env) fail(ts *taskState, oi int, op *Op, mon, site, detail string) *Violation {
	v := &Violation{Prop: x.R.Prop, Monitor: mon, Task: ts.id, OpIdx: oi, Detail: detail}
	if op != nil {
		v.Op = op.String()
		v.Kind = op.K
	}
	v.Sig = mon + ":" + v.Kind
	if site != "" {
		v.Sig += ":" + site
	}
	if x.viol == nil {
		x.viol = v
	}
	x.abort = true
	return v
}

func (x *Env) resolve(ts *taskState, b Bytes) ([]byte, error) {
	if b.Nil {
		return nil, nil
	}
	if b.Ret > 0 {
		// a slice the library returned earlier, never one the caller scribbled on
		// (the scribble-free reference execution must see the same input)
		n := len(ts.rets)
		for k := 0; k < n; k++ {
			rt := &ts.rets[((b.Ret-1)+k)%n]
			if !rt.scribbled {
				rt.input = true
				return rt.b, nil
			}
		}
		return []byte{}, nil
	}
	if b.B < 0 || b.B >= len(x.backs) {
		return nil, fmt.Errorf("backing %d out of range", b.B)
	}
	bk := x.backs[b.B]
	if b.Off < 0 || b.Len < 0 || b.Cap < b.Len || b.Off+b.Cap > len(bk) {
		return nil, fmt.Errorf("bad view %+v of backing of %d bytes", b, len(bk))
	}
	return bk[b.Off : b.Off+b.Len : b.Off+b.Cap], nil
}

func (x *Env) eArg(ts *taskState, ref int) (*secp.Element, model.Point, error) {
	switch {
	case ref == -1:
		return nil, model.Point{}, nil
	case ref >= 0:
		if ref >= len(ts.E) {
			return nil, model.Point{}, fmt.Errorf("element var %d out of range", ref)
		}
		return ts.E[ref], ts.ME[ref], nil
	default:
		i := -(ref + 2)
		if i >= len(x.sharedE) {
			return nil, model.Point{}, fmt.Errorf("shared element %d out of range", i)
		}
		return x.sharedE[i], x.shME[i], nil
	}
}

func (x *Env) sArg(ts *taskState, ref int) (*secp.Scalar, *big.Int, error) {
	switch {
	case ref == -1:
		return nil, nil, nil
	case ref >= 0:
		if ref >= len(ts.S) {
			return nil, nil, fmt.Errorf("scalar var %d out of range", ref)
		}
		return ts.S[ref], ts.MS[ref], nil
	default:
		i := -(ref + 2)
		if i >= len(x.sharedS) {
			return nil, nil, fmt.Errorf("shared scalar %d out of range", i)
		}
		return x.sharedS[i], x.shMS[i], nil
	}
}

type implOut struct {
	panicked bool
	pval     any
	trapped  bool
	addr     uintptr
	err      error
	ret      int
}

// SiteReturn is the pseudo yield site the harness passes right after a
// library call returns (so that a task released from a library primitive
// waits for the token before it touches harness state).
const SiteReturn = 0xfffffffe

// yp is a harness-side yield point.
func (x *Env) yp() {
	if x.Sch != nil && x.Sch.Active() {
		x.Sch.Hook(SiteReturn)
	}
}

// call runs f under recover and classifies a panic.
func (x *Env) call(f func() error) (o implOut) {
	defer x.yp()
	defer func() {
		if r := recover(); r != nil {
			if sc, ok := r.(sched.ErrStepCap); ok {
				panic(sc)
			}
			o.panicked = true
			o.pval = r
			if ae, ok := r.(interface{ Addr() uintptr }); ok {
				a := ae.Addr()
				if (x.Ar != nil && x.Ar.Contains(a)) || (x.useVa && x.Va.Contains(a)) {
					o.trapped = true
					o.addr = a
				}
			}
		}
	}()
	o.err = f()
	return o
}

func (x *Env) trapDetail(addr uintptr) (site, detail string) {
	if x.useVa && x.Va.Contains(addr) {
		slot, off := x.Va.Locate(addr)
		what := fmt.Sprintf("element variable %d", slot)
		if slot >= x.R.NE {
			what = fmt.Sprintf("scalar variable %d", slot-x.R.NE)
		}
		return "argument", fmt.Sprintf("memory fault at offset %d of %s, which is not the receiver of this call: the library stored into a caller-owned argument", off, what)
	}
	bi, off, ok := x.Ar.Locate(addr)
	if !ok {
		return "arena", fmt.Sprintf("fault at %#x inside the arena, outside any backing", addr)
	}
	note := ""
	size := 0
	if bi < len(x.R.Backings) {
		note = x.R.Backings[bi].Note
		size = x.R.Backings[bi].Size()
	} else {
		si := bi - len(x.R.Backings)
		note = fmt.Sprintf("shared variable #%d", si)
		site = "shared"
	}
	where := "inside"
	if off >= size && size > 0 {
		where = "past the end of"
	}
	if site == "" {
		site = "bytes"
	}
	return site, fmt.Sprintf("memory fault at offset %d %s caller-owned backing b%d (%d bytes, %s): the library stored to (or read past) memory it does not own", off, where, bi, size, note)
}

func hexOf(b []byte) string {
	if len(b) > 80 {
		return hex.EncodeToString(b[:40]) + "…" + hex.EncodeToString(b[len(b)-8:]) + fmt.Sprintf("(%d bytes)", len(b))
	}
	return hex.EncodeToString(b)
}

// implFor builds the closure that performs op on the real library. post, when
// non-nil, runs after a normal return and before the model state is updated.
func (x *Env) implFor(ts *taskState, oi int, op *Op, bs [][]byte, ea []*secp.Element, sa []*secp.Scalar) (f func() error, post func(), err error) {
	r := op.R
	switch op.K {
	case "e.new":
		f = func() error { ts.E[r] = secp.NewElement(); return nil }
	case "e.basefn":
		f = func() error { ts.E[r] = secp.Base(); return nil }
	case "e.base":
		f = func() error { ts.E[r].Base(); return nil }
	case "e.identity":
		f = func() error { ts.E[r].Identity(); return nil }
	case "e.set":
		f = func() error { ts.E[r].Set(ea[0]); return nil }
	case "e.copy":
		var c *secp.Element
		f = func() error { c = ea[0].Copy(); return nil }
		post = func() {
			if !x.strict() {
				if c != nil && c != ea[0] {
					ts.E[r] = c
				}
				return
			}
			// a copy must be a new object: not its source, not any live variable
			if c == ea[0] {
				x.fail(ts, oi, op, "M-others", "copy-alias", "Copy returned its receiver instead of a new element")
				return
			}
			for i, e := range ts.E {
				if e == c {
					x.fail(ts, oi, op, "M-others", "copy-alias", fmt.Sprintf("Copy returned the same object as element variable %d", i))
					return
				}
			}
			for i, e := range x.sharedE {
				if e == c {
					x.fail(ts, oi, op, "M-others", "copy-alias", fmt.Sprintf("Copy returned shared element %d itself", i))
					return
				}
			}
			ts.E[r] = c
		}
	case "e.add":
		f = func() error { ts.E[r].Add(ea[0]); return nil }
	case "e.sub":
		f = func() error { ts.E[r].Subtract(ea[0]); return nil }
	case "e.double":
		f = func() error { ts.E[r].Double(); return nil }
	case "e.negate":
		f = func() error { ts.E[r].Negate(); return nil }
	case "e.mul":
		f = func() error { ts.E[r].Multiply(sa[0]); return nil }
	case "e.decode":
		f = func() error { return ts.E[r].Decode(bs[0]) }
	case "e.unmarshal":
		f = func() error { return ts.E[r].UnmarshalBinary(bs[0]) }
	case "e.decodec":
		f = func() error { return ts.E[r].DecodeCompressed(bs[0]) }
	case "e.decodeu":
		f = func() error { return ts.E[r].DecodeUncompressed(bs[0]) }
	case "e.decodexy":
		xb, _ := hex.DecodeString(op.X[0])
		yb, _ := hex.DecodeString(op.X[1])
		f = func() error { return ts.E[r].DecodeCoordinates([32]byte(xb), [32]byte(yb)) }
	case "e.decodehex":
		f = func() error { return ts.E[r].DecodeHex(op.H) }
	case "e.h2g":
		f = func() error { ts.E[r] = secp.HashToGroup(bs[0], bs[1]); return nil }
	case "e.e2g":
		f = func() error { ts.E[r] = secp.EncodeToGroup(bs[0], bs[1]); return nil }
	case "e.equal":
		var got int
		f = func() error { got = ts.E[r].Equal(ea[0]); return nil }
		post = func() {
			ts.extra = append(ts.extra, byte(got))
			want := b2i(ts.ME[r].Eq(x.mArgE(ts, op.A[0])))
			if got != want && x.strict() {
				x.fail(ts, oi, op, "M-ref", "equal", fmt.Sprintf("Equal returned %d, model says %d", got, want))
			}
		}
	case "s.new":
		f = func() error { ts.S[r] = secp.NewScalar(); return nil }
	case "s.zero":
		f = func() error { ts.S[r].Zero(); return nil }
	case "s.one":
		f = func() error { ts.S[r].One(); return nil }
	case "s.minusone":
		f = func() error { ts.S[r].MinusOne(); return nil }
	case "s.setu64":
		f = func() error { ts.S[r].SetUInt64(op.U); return nil }
	case "s.set":
		f = func() error { ts.S[r].Set(sa[0]); return nil }
	case "s.copy":
		var c *secp.Scalar
		f = func() error { c = sa[0].Copy(); return nil }
		post = func() {
			if !x.strict() {
				if c != nil && c != sa[0] {
					ts.S[r] = c
				}
				return
			}
			if c == sa[0] {
				x.fail(ts, oi, op, "M-others", "copy-alias", "Copy returned its receiver instead of a new scalar")
				return
			}
			for i, s := range ts.S {
				if s == c {
					x.fail(ts, oi, op, "M-others", "copy-alias", fmt.Sprintf("Copy returned the same object as scalar variable %d", i))
					return
				}
			}
			for i, s := range x.sharedS {
				if s == c {
					x.fail(ts, oi, op, "M-others", "copy-alias", fmt.Sprintf("Copy returned shared scalar %d itself", i))
					return
				}
			}
			ts.S[r] = c
		}
	case "s.add":
		f = func() error { ts.S[r].Add(sa[0]); return nil }
	case "s.sub":
		f = func() error { ts.S[r].Subtract(sa[0]); return nil }
	case "s.mul":
		f = func() error { ts.S[r].Multiply(sa[0]); return nil }
	case "s.square":
		f = func() error { ts.S[r].Square(); return nil }
	case "s.invert":
		f = func() error { ts.S[r].Invert(); return nil }
	case "s.pow":
		f = func() error { ts.S[r].Pow(sa[0]); return nil }
	case "s.cselect":
		f = func() error { return ts.S[r].CSelect(op.U, sa[0], sa[1]) }
	case "s.decode":
		f = func() error { return ts.S[r].Decode(bs[0]) }
	case "s.unmarshal":
		f = func() error { return ts.S[r].UnmarshalBinary(bs[0]) }
	case "s.decodehex":
		f = func() error { return ts.S[r].DecodeHex(op.H) }
	case "s.random":
		f = func() error { ts.S[r].Random(); return nil }
	case "s.h2s":
		f = func() error { ts.S[r] = secp.HashToScalar(bs[0], bs[1]); return nil }
	case "s.equal":
		var got int
		f = func() error { got = ts.S[r].Equal(sa[0]); return nil }
		post = func() {
			ts.extra = append(ts.extra, byte(got))
			want := 0
			if sa[0] != nil {
				want = b2i(ts.MS[r].Cmp(x.mArgS(ts, op.A[0])) == 0)
			}
			if got != want && x.strict() {
				x.fail(ts, oi, op, "M-ref", "equal", fmt.Sprintf("Equal returned %d, model says %d", got, want))
			}
		}
	default:
		return nil, nil, fmt.Errorf("unknown op kind %q", op.K)
	}
	return f, post, nil
}

func (x *Env) mArgE(ts *taskState, ref int) model.Point {
	_, m, _ := x.eArg(ts, ref)
	return m
}

func (x *Env) mArgS(ts *taskState, ref int) *big.Int {
	_, m, _ := x.sArg(ts, ref)
	return m
}

// strict reports whether agreement with the abstract model is a verdict of
// this run (it is C10's statement only).
func (x *Env) strict() bool { return x.R.Prop == "C10" }

// argsKeptValue checks that every pointer argument other than the receiver has
// the value it had before the call (C15: "scalar or element arguments keep
// their value"). Identical bytes are identical values; otherwise the
// encodings of the before-image and of the argument are compared, so that a
// change of representation that keeps the value is not reported.
func (x *Env) argsKeptValue(ts *taskState, oi int, op *Op, ea []*secp.Element, sa []*secp.Scalar, raw [][]byte) bool {
	k := 0
	for _, e := range ea {
		before := raw[k]
		k++
		if e == nil || (IsElemOp(op.K) && e == ts.E[op.R]) {
			continue
		}
		now := unsafe.Slice((*byte)(unsafe.Pointer(e)), elemSize)
		if bytes.Equal(before, now) {
			continue
		}
		was := (*secp.Element)(unsafe.Pointer(&before[0])).Encode()
		is := e.Encode()
		if !bytes.Equal(was, is) {
			x.fail(ts, oi, op, "M-arg", "element", fmt.Sprintf("element argument changed value during the call: %s before, %s after", hexOf(was), hexOf(is)))
			return false
		}
	}
	for _, sc := range sa {
		before := raw[k]
		k++
		if sc == nil || (!IsElemOp(op.K) && sc == ts.S[op.R]) {
			continue
		}
		now := unsafe.Slice((*byte)(unsafe.Pointer(sc)), scalSize)
		if bytes.Equal(before, now) {
			continue
		}
		was := (*secp.Scalar)(unsafe.Pointer(&before[0])).Encode()
		is := sc.Encode()
		if !bytes.Equal(was, is) {
			x.fail(ts, oi, op, "M-arg", "scalar", fmt.Sprintf("scalar argument changed value during the call: %x before, %x after", was, is))
			return false
		}
	}
	return true
}

// home moves every variable of the task back into its guarded page (calls
// such as Copy, Base() or HashToGroup hand out heap objects).
func (x *Env) home(ts *taskState) {
	for i, e := range ts.E {
		slot := x.Va.Slot(i)
		if unsafe.Pointer(e) != unsafe.Pointer(&slot[0]) {
			copy(slot, unsafe.Slice((*byte)(unsafe.Pointer(e)), elemSize))
			ts.E[i] = (*secp.Element)(unsafe.Pointer(&slot[0]))
		}
	}
	for i, sc := range ts.S {
		slot := x.Va.Slot(x.R.NE + i)
		if unsafe.Pointer(sc) != unsafe.Pointer(&slot[0]) {
			copy(slot, unsafe.Slice((*byte)(unsafe.Pointer(sc)), scalSize))
			ts.S[i] = (*secp.Scalar)(unsafe.Pointer(&slot[0]))
		}
	}
}

func (x *Env) bad(why string) {
	if x.incon == nil {
		x.incon = Inconclusive{why}
	}
	x.abort = true
}

// step executes one op on both sides and runs the monitors.
func (x *Env) step(ts *taskState, oi int, op *Op) {
	x.curTask, x.curOp, x.curKind = ts, oi, op.K
	ts.curOp, ts.curOpP = oi, op
	x.St.Ops++
	x.St.OpKinds[op.K]++

	if op.K == "scribble" {
		x.scribble(ts, oi, op)
		if !x.abort {
			if x.useVa {
				x.Va.SetAll(x.R.NE+x.R.NS, true)
				defer x.Va.SetAll(x.R.NE+x.R.NS, false)
			}
			x.observe(ts, oi, op, -1, -1)
		}
		return
	}

	if op.K == "burst" {
		if x.useVa {
			x.Va.SetAll(x.R.NE+x.R.NS, true)
			defer x.Va.SetAll(x.R.NE+x.R.NS, false)
		}
		x.burst(ts, oi, op)
		if !x.abort {
			x.observe(ts, oi, op, -1, -1)
		}
		return
	}

	// ---- resolve arguments
	var bs [][]byte
	var bcopies [][]byte
	for _, b := range op.B {
		s, err := x.resolve(ts, b)
		if err != nil {
			x.bad(err.Error())
			return
		}
		bs = append(bs, s)
		bcopies = append(bcopies, append([]byte(nil), s[:cap(s)]...))
	}
	var ea []*secp.Element
	var sa []*secp.Scalar
	isE := IsElemOp(op.K)
	for _, ref := range op.A {
		if ArgIsScalar(op.K) {
			s, _, err := x.sArg(ts, ref)
			if err != nil {
				x.bad(err.Error())
				return
			}
			sa = append(sa, s)
		} else {
			e, _, err := x.eArg(ts, ref)
			if err != nil {
				x.bad(err.Error())
				return
			}
			ea = append(ea, e)
		}
	}
	r := op.R

	// ---- what the specification says
	ms := &MState{ME: ts.ME, MS: ts.MS, ShME: x.shME, ShMS: x.shMS}
	mo, err := ModelEval(ms, op, bs, x.St)
	if err != nil {
		x.bad(err.Error())
		return
	}
	f, post, err := x.implFor(ts, oi, op, bs, ea, sa)
	if err != nil {
		x.bad(err.Error())
		return
	}
	rdStart := 0
	if x.Dev != nil {
		rdStart = len(x.Dev.Log)
	}

	var argRaw [][]byte
	if x.R.Prop == "C15" {
		for _, e := range ea {
			if e != nil {
				argRaw = append(argRaw, rawCopy(unsafe.Pointer(e), elemSize))
			} else {
				argRaw = append(argRaw, nil)
			}
		}
		for _, sc := range sa {
			if sc != nil {
				argRaw = append(argRaw, rawCopy(unsafe.Pointer(sc), scalSize))
			} else {
				argRaw = append(argRaw, nil)
			}
		}
	}

	// ---- run the implementation (C15 with guarded variables: only the
	// receiver's page is writable during the call)
	recvSlot := r
	if !isE {
		recvSlot = x.R.NE + r
	}
	if x.useVa {
		x.Va.SetOne(recvSlot, true)
	}
	out := x.call(f)
	if x.useVa {
		x.Va.SetAll(x.R.NE+x.R.NS, true)
		defer x.Va.SetAll(x.R.NE+x.R.NS, false)
		x.home(ts)
	}

	if out.trapped {
		site, d := x.trapDetail(out.addr)
		x.fail(ts, oi, op, "M-trap", site, d)
		return
	}
	if st, ok := out.pval.(entropy.Stall); ok && out.panicked && x.R.Prop == "C18" {
		x.fail(ts, oi, op, "M-entropy", "stall", fmt.Sprintf("the call kept reading the randomness source through %d consecutive reads that delivered nothing (failed or empty) instead of failing", st.Reads))
		return
	}
	if !x.sharedIntact(ts, oi, op) {
		return
	}

	// ---- Random: judged against the bytes the entropy device delivered
	if op.K == "s.random" {
		x.afterRandom(ts, oi, op, rdStart, out)
		return
	}

	// Agreement with the abstract model is C10's statement. The other checks
	// run the model only to steer generation and to count reach probes; they
	// judge by their own monitors and never by the model (a tree that breaks
	// C10 alone must not make C15, C16 or C18 raise an alarm).
	strict := x.strict()
	switch {
	case out.panicked && !mo.panics && strict:
		x.fail(ts, oi, op, "M-ref", "panic", fmt.Sprintf("call panicked (%v) where the model returns a value", out.pval))
		return
	case !out.panicked && mo.panics && strict:
		x.fail(ts, oi, op, "M-ref", "nopanic", "call returned normally where a panic is specified")
		return
	case out.panicked:
		x.St.PanicOps++
		x.observe(ts, oi, op, -1, -1)
		return
	}
	if (out.err != nil) != mo.errs && strict {
		if mo.errs {
			x.fail(ts, oi, op, "M-ref", "noerror", "call succeeded where the model rejects the input")
		} else {
			x.fail(ts, oi, op, "M-ref", "error", fmt.Sprintf("call failed (%v) where the model accepts", out.err))
		}
		return
	}
	if out.err != nil {
		x.St.FailedOps++
	}

	// ---- caller memory: byte arguments unchanged over their whole capacity
	// (C15 and C16; redundant with the trap in arena runs, the only check for
	// heap inputs such as slices the library returned earlier)
	for i, s := range bs {
		if x.R.Prop != "C15" && x.R.Prop != "C16" {
			break
		}
		if !bytes.Equal(s[:cap(s)], bcopies[i]) {
			j := 0
			full := s[:cap(s)]
			for j < len(full) && full[j] == bcopies[i][j] {
				j++
			}
			where := "spare-capacity"
			if j < len(s) {
				where = "data"
			}
			x.fail(ts, oi, op, "M-view", where, fmt.Sprintf("byte argument %d changed at offset %d of its backing view (len %d, cap %d): %02x -> %02x", i, j, len(s), cap(s), bcopies[i][j], full[j]))
			return
		}
	}

	// ---- pointer arguments keep their value (C15): compared with their own
	// pre-call state, not with the model
	if x.R.Prop == "C15" && !x.argsKeptValue(ts, oi, op, ea, sa, argRaw) {
		return
	}
	if post != nil {
		post()
		if x.abort {
			return
		}
	}
	if x.useVa {
		x.home(ts)
	}

	// ---- update model state
	if isE {
		if mo.setE != nil {
			ts.ME[r] = *mo.setE
			x.St.StateOps++
		}
	} else {
		if mo.unspec {
			ts.MS[r] = nil
			x.resyncScalar(ts, oi, op, r)
		} else if mo.setS != nil {
			ts.MS[r] = mo.setS
			x.St.StateOps++
		}
	}
	if x.abort {
		return
	}
	x.observe(ts, oi, op, r, b2i(isE))
}

func b2i(b bool) int {
	if b {
		return 1
	}
	return 0
}

func rawCopy(p unsafe.Pointer, n uintptr) []byte {
	return append([]byte(nil), unsafe.Slice((*byte)(p), n)...)
}

// sharedIntact checks that the shared read-only variables still hold the
// bytes they were published with (belt and braces next to the write trap; the
// only check when the trap cannot be armed).
func (x *Env) sharedIntact(ts *taskState, oi int, op *Op) bool {
	for i, e := range x.sharedE {
		if !bytes.Equal(unsafe.Slice((*byte)(unsafe.Pointer(e)), elemSize), x.shRawE[i]) {
			x.fail(ts, oi, op, "M-shared", "element", fmt.Sprintf("shared element %d was modified", i))
			return false
		}
		if x.shDeepE != nil {
			if h, _ := deepHash(reflect.ValueOf(e), false); h != x.shDeepE[i] {
				x.fail(ts, oi, op, "M-shared", "element-reachable", fmt.Sprintf("memory reachable from shared element %d (through a pointer inside it) was modified: state hidden in the value is shared with the objects that were copied from it", i))
				return false
			}
		}
	}
	for i, sc := range x.sharedS {
		if !bytes.Equal(unsafe.Slice((*byte)(unsafe.Pointer(sc)), scalSize), x.shRawS[i]) {
			x.fail(ts, oi, op, "M-shared", "scalar", fmt.Sprintf("shared scalar %d was modified", i))
			return false
		}
		if x.shDeepS != nil {
			if h, _ := deepHash(reflect.ValueOf(sc), false); h != x.shDeepS[i] {
				x.fail(ts, oi, op, "M-shared", "scalar-reachable", fmt.Sprintf("memory reachable from shared scalar %d (through a pointer inside it) was modified", i))
				return false
			}
		}
	}
	return true
}

// resyncScalar adopts the implementation's value for a scalar the properties
// leave unspecified (after a rejected out-of-range decode, after a panic in
// Random), requiring only that it is canonical.
func (x *Env) resyncScalar(ts *taskState, oi int, op *Op, r int) {
	enc := ts.S[r].Encode()
	x.yp()
	v := new(big.Int).SetBytes(enc)
	if (len(enc) != 32 || v.Cmp(model.N) >= 0) && x.strict() {
		x.fail(ts, oi, op, "M-ref", "noncanonical", fmt.Sprintf("scalar encodes to non-canonical %x", enc))
		return
	}
	ts.MS[r] = v
	x.St.Probes["scalar_resync_unspecified"]++
}

// scanBlocks walks q in 32-byte blocks and returns the first block whose value
// mod n is non-zero, reduced, together with the number of bytes consumed up to
// and including it.
func (x *Env) scanBlocks(q []byte, count bool) (v *big.Int, used int, ok bool) {
	for used+32 <= len(q) {
		b := new(big.Int).SetBytes(q[used : used+32])
		used += 32
		red := new(big.Int).Mod(b, model.N)
		if red.Sign() != 0 {
			if count && b.Cmp(model.N) > 0 {
				x.St.Probes["random_reduced_block_gt_n"]++
			}
			return red, used, true
		}
		if count {
			if b.Sign() == 0 {
				x.St.Probes["random_retry_zero_block"]++
			} else {
				x.St.Probes["random_retry_block_eq_n"]++
			}
		}
	}
	return nil, used, false
}

// afterRandom judges one call of Random against the specification, stated over
// the bytes the source delivered:
//
//   - every value returned is in [1, n-1], canonical, and is the first 32-byte
//     block with non-zero residue of the bytes delivered to this task and not
//     yet used, reduced mod n; using it consumes it;
//   - if the source reports an error at a moment when no such block is
//     available, the call must panic - except for an error delivered together
//     with all the bytes that read request asked for, which an
//     io.ReadFull-style consumer cannot see; it may panic on any error; it must
//     not panic when the source reported none;
//   - after a panic, complete blocks that were delivered but not used may be
//     kept or dropped (both are followed); the partial block that was being
//     assembled when the source failed is dropped: a later value must not be
//     built from the remains of a failed draw.
//
// With several callers and an implementation that shares buffered entropy
// between them, which caller is handed which block is not determined by the
// reads each made. When the per-task rules fail in such a run (a read request
// larger than one block has been seen, or a value was returned by a call that
// was served nothing), the run is judged by the pool rule instead: every value
// returned so far must be matched, one to one, by a 32-byte aligned block with
// that residue among the bytes delivered to any task.
func (x *Env) afterRandom(ts *taskState, oi int, op *Op, rdStart int, out implOut) {
	r := op.R
	if x.rq == nil {
		x.rq = map[int][][]byte{}
	}
	alts := x.rq[ts.id]
	if len(alts) == 0 {
		alts = [][]byte{nil}
	}
	// reads served to this task during the call
	type errAt struct {
		off  int
		n    int
		want int
		name string
	}
	var delivered []byte
	var errs []errAt
	for _, rec := range x.Dev.Log[rdStart:] {
		if rec.Task != ts.id {
			continue
		}
		x.St.EntropyRd++
		if rec.Want > 32 {
			x.wide = true
			x.St.Probes["random_read_request_larger_than_one_block"]++
		}
		delivered = append(delivered, rec.Data...)
		if rec.Err != nil {
			errs = append(errs, errAt{len(delivered), rec.N, rec.Want, rec.Err.Error()})
		}
	}
	var got *big.Int
	if !out.panicked {
		enc := ts.S[r].Encode()
		x.yp()
		got = new(big.Int).SetBytes(enc)
		if x.R.Prop != "C18" {
			// what Random must return is C18's statement; elsewhere the value is
			// taken as it comes
			ts.MS[r] = got
			x.St.StateOps++
			x.observe(ts, oi, op, r, 0)
			return
		}
		if len(enc) != 32 || got.Cmp(model.N) >= 0 || got.Sign() == 0 {
			x.fail(ts, oi, op, "M-entropy", "range", fmt.Sprintf("Random left the non-canonical or zero value %x", enc))
			return
		}
		x.randHist = append(x.randHist, got)
	}
	if x.R.Prop != "C18" {
		x.St.PanicOps++
		ts.MS[r] = nil
		x.resyncScalar(ts, oi, op, r)
		x.observe(ts, oi, op, -1, -1)
		return
	}
	accept := func() {
		if out.panicked {
			x.St.PanicOps++
			ts.MS[r] = nil // receiver unspecified after a panic
			x.resyncScalar(ts, oi, op, r)
			x.observe(ts, oi, op, -1, -1)
			return
		}
		ts.MS[r] = got
		x.St.StateOps++
		x.observe(ts, oi, op, r, 0)
	}
	if x.pool {
		if why := x.poolJudge(out.panicked, len(errs) > 0, out.pval); why != "" {
			x.fail(ts, oi, op, "M-entropy", "pool", why)
			return
		}
		accept()
		return
	}
	var next [][]byte
	why := ""
	for ai, q := range alts {
		full := append(append([]byte(nil), q...), delivered...)
		hard := false
		for _, e := range errs {
			// an error delivered together with all the bytes the read asked for is
			// invisible to an io.ReadFull-style consumer (it reports success for
			// that request, whether the request was for a whole block or for a
			// piece of one): acting on it or not are both in spec
			soft := e.n > 0 && e.n == e.want
			if _, _, ok := x.scanBlocks(full[:len(q)+e.off], false); !ok && !soft {
				hard = true
				if ai == 0 {
					if (len(q)+e.off)%32 != 0 {
						x.St.Probes["random_error_mid_block"]++
					} else {
						x.St.Probes["random_error_at_block_boundary"]++
					}
				}
			} else if ai == 0 {
				x.St.Probes["random_error_with_block_completing_bytes"]++
			}
		}
		if out.panicked {
			if len(errs) == 0 {
				if why == "" {
					why = fmt.Sprintf("Random panicked (%v) although the source reported no failure", out.pval)
				}
				continue
			}
			// after a panic: complete blocks delivered but not used may be kept
			// (a buffering implementation) or dropped; the bytes of the block
			// that was being assembled when the source failed must not survive
			next = append(next, full[:len(full)-len(full)%32], nil)
			continue
		}
		if hard {
			if why == "" {
				why = "Random returned a value although the source failed at a moment when no complete acceptable block had been delivered (a failing source must cause a panic)"
			}
			continue
		}
		v, used, ok := x.scanBlocks(full, ai == 0)
		if !ok {
			if why == "" {
				why = fmt.Sprintf("Random returned %x although the bytes delivered to it contain no complete 32-byte block with non-zero residue", got)
			}
			continue
		}
		if v.Cmp(got) != 0 {
			if why == "" {
				why = fmt.Sprintf("Random returned %x; the first delivered 32-byte block with non-zero residue reduces to %x", got, v)
			}
			continue
		}
		next = append(next, full[used:])
	}
	if len(next) == 0 && len(x.R.Tasks) > 1 && (x.wide || (!out.panicked && len(delivered) == 0)) {
		// several callers over an implementation that buffers entropy: judge the
		// whole run so far by the pool rule, and stay with it
		x.pool = true
		x.St.Probes["random_judged_by_pool_rule"]++
		if pw := x.poolJudge(out.panicked, len(errs) > 0, out.pval); pw != "" {
			x.fail(ts, oi, op, "M-entropy", "pool", pw)
			return
		}
		accept()
		return
	}
	if len(next) == 0 {
		x.fail(ts, oi, op, "M-entropy", "value", why)
		return
	}
	// keep the candidate set small and deterministic
	if len(next) > 4 {
		next = next[:4]
	}
	x.rq[ts.id] = next
	accept()
}

// poolJudge applies the pool rule to everything Random has returned in this
// run: each value needs its own 32-byte aligned block, with that residue, among
// the bytes delivered to any one task. It returns "" or the complaint.
func (x *Env) poolJudge(panicked, sawErr bool, pval any) string {
	if panicked && !sawErr {
		return fmt.Sprintf("Random panicked (%v) although the source reported no failure to this caller", pval)
	}
	// the bytes delivered to each task, cut into segments at every source
	// error (what was being assembled when the source failed is dropped, so
	// block alignment starts afresh after a failure)
	per := map[int][][]byte{}
	var order []int
	for _, rec := range x.Dev.Log {
		segs, ok := per[rec.Task]
		if !ok {
			order = append(order, rec.Task)
			segs = [][]byte{nil}
		}
		segs[len(segs)-1] = append(segs[len(segs)-1], rec.Data...)
		if rec.Err != nil {
			segs = append(segs, nil)
		}
		per[rec.Task] = segs
	}
	type blk struct {
		v    *big.Int
		used bool
	}
	var pool []*blk
	for _, t := range order {
		for _, d := range per[t] {
			for off := 0; off+32 <= len(d); off += 32 {
				v := new(big.Int).SetBytes(d[off : off+32])
				if v.Mod(v, model.N); v.Sign() != 0 {
					pool = append(pool, &blk{v: v})
				}
			}
		}
	}
	for _, g := range x.randHist {
		found := false
		for _, b := range pool {
			if !b.used && b.v.Cmp(g) == 0 {
				b.used, found = true, true
				break
			}
		}
		if !found {
			return fmt.Sprintf("Random returned %x, which is not the residue of any unused 32-byte block among the bytes the source delivered", g)
		}
	}
	return ""
}

func (x *Env) scribble(ts *taskState, oi int, op *Op) {
	n := len(ts.rets)
	if n == 0 {
		return
	}
	var rt *retained
	for k := 0; k < n; k++ {
		c := &ts.rets[(int(op.U%uint64(n))+k)%n]
		if !c.input {
			rt = c
			break
		}
	}
	if rt == nil {
		return
	}
	rt.scribbled = true
	if x.dry {
		return // reference execution: same selection, no write
	}
	full := rt.b[:cap(rt.b)]
	rg := prng.New(op.U ^ 0x5c71bb1e)
	for i := range full {
		full[i] = byte(rg.U64())
	}
	x.St.Scribbles++
	x.St.Faults["caller_scribble_on_returned_slice"]++
	x.St.Probes["scribble_"+rt.what]++
}

// observe checks the observable state of the acting task against the model.
func (x *Env) observe(ts *taskState, oi int, op *Op, recv int, recvIsE int) {
	if x.abort {
		return
	}
	if op != nil && op.Q {
		// a step after which the caller does not look: the next operation
		// consumes whatever representation this one left behind
		ts.extra = ts.extra[:0]
		ts.digest = append(ts.digest, 0)
		x.St.Probes["step_without_observation"]++
		return
	}
	defer func() {
		if r := recover(); r != nil {
			if sc, ok := r.(sched.ErrStepCap); ok {
				panic(sc)
			}
			if ae, ok := r.(interface{ Addr() uintptr }); ok && x.Ar != nil && x.Ar.Contains(ae.Addr()) {
				site, d := x.trapDetail(ae.Addr())
				x.fail(ts, oi, op, "M-trap", site, "while observing the task's own variables: "+d)
				return
			}
			if x.strict() {
				x.fail(ts, oi, op, "M-ref", "observer-panic", fmt.Sprintf("an observer (Encode/Equal/IsIdentity/IsZero/...) panicked: %v", r))
			} else {
				ts.digest = append(ts.digest, 0xdead0b5e77e7)
			}
		}
	}()
	strict := x.strict()
	var dg uint64 = 0xcbf29ce484222325
	mixb := func(b []byte) {
		for _, c := range b {
			dg = (dg ^ uint64(c)) * 0x100000001b3
		}
		dg = (dg ^ 0xff) * 0x100000001b3
	}
	// three groups of observers, in an order chosen per run: a defect that one
	// observer repairs as a side effect (lazy normalisation, say) must not be
	// masked by always observing in the same order
	var eqs []byte
	encPhase := func() bool {
		for i := range ts.E {
			if !x.R.ObsAll && !(recvIsE == 1 && i == recv) {
				continue
			}
			x.St.Observes++
			got := ts.E[i].Encode()
			x.yp()
			want := model.EncodeCompressed(ts.ME[i])
			mixb(got)
			if strict && !bytes.Equal(got, want) {
				mon, site := "M-ref", "encode"
				if !(recvIsE == 1 && i == recv) {
					mon, site = "M-others", "element"
				} else if p, err := model.Decode(got); err != nil || !p.Valid() {
					mon, site = "M-valid", "encode"
				}
				x.fail(ts, oi, op, mon, site, fmt.Sprintf("element variable %d encodes to %s, model says %s", i, hexOf(got), hexOf(want)))
				return true
			}
			if x.R.Returns {
				if x.retain(ts, oi, op, "Element.Encode", got) {
					return true
				}
			}
		}
		for i := range ts.S {
			if !x.R.ObsAll && !(recvIsE == 0 && i == recv) {
				continue
			}
			x.St.Observes++
			got := ts.S[i].Encode()
			x.yp()
			if ts.MS[i] == nil {
				ts.MS[i] = new(big.Int).SetBytes(got)
			}
			want := model.SEncode(ts.MS[i])
			mixb(got)
			if strict && !bytes.Equal(got, want) {
				mon, site := "M-ref", "encode"
				if !(recvIsE == 0 && i == recv) {
					mon, site = "M-others", "scalar"
				}
				x.fail(ts, oi, op, mon, site, fmt.Sprintf("scalar variable %d encodes to %x, model says %x", i, got, want))
				return true
			}
			if x.R.Returns {
				if x.retain(ts, oi, op, "Scalar.Encode", got) {
					return true
				}
			}
		}
		return false
	}
	idPhase := func() bool {
		for i := range ts.E {
			if !x.R.ObsAll && !(recvIsE == 1 && i == recv) {
				continue
			}
			id := ts.E[i].IsIdentity()
			x.yp()
			mixb([]byte{byte(b2i(id))})
			if strict && id != ts.ME[i].IsInf() {
				x.fail(ts, oi, op, "M-ref", "isidentity", fmt.Sprintf("element variable %d: IsIdentity = %v, model says %v", i, id, ts.ME[i].IsInf()))
				return true
			}
			if ts.ME[i].IsInf() && recvIsE == 1 && i == recv && op != nil {
				x.St.Probes["identity_via_"+op.K]++
			}
		}
		for i := range ts.S {
			if !x.R.ObsAll && !(recvIsE == 0 && i == recv) {
				continue
			}
			if ts.MS[i] == nil {
				continue
			}
			z := ts.S[i].IsZero()
			x.yp()
			mixb([]byte{byte(b2i(z))})
			if strict && z != (ts.MS[i].Sign() == 0) {
				x.fail(ts, oi, op, "M-ref", "iszero", fmt.Sprintf("scalar variable %d: IsZero = %v, model says %v", i, z, ts.MS[i].Sign() == 0))
				return true
			}
		}
		return false
	}
	eqPhase := func() bool {
		if x.R.ObsAll {
			for i := range ts.E {
				for j := range ts.E {
					want := b2i(ts.ME[i].Eq(ts.ME[j]))
					got := ts.E[i].Equal(ts.E[j])
					x.yp()
					eqs = append(eqs, byte(got))
					if strict && got != want {
						x.fail(ts, oi, op, "M-ref", "equal", fmt.Sprintf("element %d Equal element %d = %d, model says %d", i, j, got, want))
						return true
					}
					if want == 1 && i != j && !ts.ME[i].IsInf() {
						x.St.Probes["equal_true_distinct_vars"]++
					}
				}
			}
			for i := range ts.S {
				for j := range ts.S {
					if ts.MS[i] == nil || ts.MS[j] == nil {
						continue
					}
					want := b2i(ts.MS[i].Cmp(ts.MS[j]) == 0)
					got := ts.S[i].Equal(ts.S[j])
					x.yp()
					eqs = append(eqs, byte(got))
					if strict && got != want {
						x.fail(ts, oi, op, "M-ref", "equal", fmt.Sprintf("scalar %d Equal scalar %d = %d, model says %d", i, j, got, want))
						return true
					}
				}
			}
		}
		return false
	}
	order := [][3]func() bool{{encPhase, idPhase, eqPhase}, {eqPhase, idPhase, encPhase}, {idPhase, eqPhase, encPhase}}[x.R.ObsOrder%3]
	for _, ph := range order {
		if ph() {
			return
		}
	}
	mixb(eqs)
	mixb(ts.extra)
	ts.extra = ts.extra[:0]
	if x.R.Returns && recv >= 0 {
		if x.returns(ts, oi, op, recv, recvIsE == 1) {
			return
		}
	}
	if x.R.Returns {
		// a slice the library handed out belongs to the caller: unless the caller
		// wrote into it, its contents must never change again
		for k := range ts.rets {
			rt := &ts.rets[k]
			if !rt.scribbled && !bytes.Equal(rt.b, rt.img) {
				x.fail(ts, oi, op, "M-stable", rt.what, fmt.Sprintf("the slice returned by %s at step %d has changed although the caller never wrote to it: %s when returned, %s now (the library kept using its backing array)", rt.what, rt.op, hexOf(rt.img), hexOf(rt.b)))
				return
			}
		}
	}
	if x.R.Aux && recv >= 0 {
		dg = (dg ^ x.aux(ts, recv, recvIsE == 1, oi)) * 0x100000001b3
	}
	// global state: "the package keeps no mutable global state" is C16's
	// statement only; the other properties do not forbid (say) a cache
	if name, ok := x.G.CheckDeep(); !ok && x.R.Prop == "C16" && !noMGlob {
		msg := fmt.Sprintf("%s changed after initialisation", stateName(name))
		if strings.Contains(name, "(sync.Once") {
			msg = stateName(name)
		}
		x.fail(ts, oi, op, "M-glob", name, msg)
		return
	}
	ts.digest = append(ts.digest, dg)
	if x.base != nil {
		k := len(ts.digest) - 1
		if k >= len(x.base) || x.base[k] != dg {
			x.fail(ts, oi, op, "M-scribble", "observe", "observable state differs from the execution of the same history in which the caller never wrote into a returned slice: a returned buffer is shared with library state or with another result")
			return
		}
	}
	if x.phase == "concurrent" && x.solo != nil && ts.id >= 0 && ts.id < len(x.solo) && x.solo[ts.id] != nil {
		k := len(ts.digest) - 1
		if k < len(x.solo[ts.id]) && x.solo[ts.id][k] != dg {
			x.fail(ts, oi, op, "M-solo", "observe", "observable state after this call differs from the same task run alone")
		}
	}
}

// aux calls the remaining read-only API functions on the receiver (with shared
// variables as arguments where one is taken) and returns a digest of their
// results. No model is consulted: in concurrent runs the digest is compared
// with the one the same task produced when run alone, which is what the
// property promises, and it is all that can be asked of functions whose
// sequential behaviour other (unclaimed) properties describe.
func (x *Env) aux(ts *taskState, r int, isE bool, oi int) uint64 {
	var h uint64 = 0xcbf29ce484222325
	mix := func(b []byte) {
		for _, c := range b {
			h = (h ^ uint64(c)) * 0x100000001b3
		}
		h = (h ^ 0xfe) * 0x100000001b3
	}
	if isE {
		e := ts.E[r]
		mix([]byte(e.Hex()))
		x.yp()
		b, _ := e.MarshalBinary()
		x.yp()
		mix(b)
		mix(e.XCoordinate())
		x.yp()
		mix(e.EncodeUncompressed())
		x.yp()
		c := e.Copy()
		x.yp()
		mix(c.Encode())
		x.yp()
		if n := len(x.sharedE); n > 0 {
			k := oi % n
			mix([]byte{byte(e.Equal(x.sharedE[k]))})
			x.yp()
			c.Add(x.sharedE[k])
			x.yp()
			c.Subtract(x.sharedE[(k+1)%n])
			x.yp()
			mix(c.Encode())
			x.yp()
		}
	} else {
		sc := ts.S[r]
		mix([]byte(sc.Hex()))
		x.yp()
		b, _ := sc.MarshalBinary()
		x.yp()
		mix(b)
		if sc.IsOne() {
			mix([]byte{1})
		}
		x.yp()
		bits := sc.Bits()
		x.yp()
		mix(bits[:])
		mix([]byte{byte(sc.LessOrEqual(sc))})
		x.yp()
		if n := len(x.sharedS); n > 0 {
			k := oi % n
			mix([]byte{byte(sc.LessOrEqual(x.sharedS[k])), byte(sc.Equal(x.sharedS[k]))})
			x.yp()
			c := sc.Copy()
			x.yp()
			_ = c.CSelect(uint64(oi&1), x.sharedS[k], x.sharedS[(k+1)%n])
			x.yp()
			mix(c.Encode())
			x.yp()
		}
	}
	mix(secp.Order())
	x.yp()
	mix([]byte(secp.Ciphersuite()))
	mix([]byte{byte(secp.ScalarLength()), byte(secp.ElementLength())})
	x.yp()
	return h
}

// returns exercises every slice-returning call on the receiver and checks
// value and freshness. It reports whether a violation was raised.
func (x *Env) returns(ts *taskState, oi int, op *Op, r int, isE bool) bool {
	if isE {
		e, m := ts.E[r], ts.ME[r]
		u := e.EncodeUncompressed()
		x.yp()
		if x.strict() && !m.IsInf() && !bytes.Equal(u, model.EncodeUncompressed(m)) {
			x.fail(ts, oi, op, "M-ref", "encodeuncompressed", fmt.Sprintf("EncodeUncompressed = %s, model says %s", hexOf(u), hexOf(model.EncodeUncompressed(m))))
			return true
		}
		ts.extra = append(ts.extra, u...)
		if x.retain(ts, oi, op, "Element.EncodeUncompressed", u) {
			return true
		}
		xc := e.XCoordinate()
		x.yp()
		if x.strict() && !m.IsInf() && !bytes.Equal(xc, model.EncodeCompressed(m)[1:]) {
			x.fail(ts, oi, op, "M-ref", "xcoordinate", fmt.Sprintf("XCoordinate = %x", xc))
			return true
		}
		ts.extra = append(ts.extra, xc...)
		if x.retain(ts, oi, op, "Element.XCoordinate", xc) {
			return true
		}
		mb, err := e.MarshalBinary()
		x.yp()
		if x.strict() && (err != nil || !bytes.Equal(mb, model.EncodeCompressed(m))) {
			x.fail(ts, oi, op, "M-ref", "marshalbinary", fmt.Sprintf("MarshalBinary = %x, %v", mb, err))
			return true
		}
		ts.extra = append(ts.extra, mb...)
		if x.retain(ts, oi, op, "Element.MarshalBinary", mb) {
			return true
		}
	} else if ts.MS[r] != nil {
		s, m := ts.S[r], ts.MS[r]
		mb, err := s.MarshalBinary()
		x.yp()
		if x.strict() && (err != nil || !bytes.Equal(mb, model.SEncode(m))) {
			x.fail(ts, oi, op, "M-ref", "marshalbinary", fmt.Sprintf("MarshalBinary = %x, %v", mb, err))
			return true
		}
		ts.extra = append(ts.extra, mb...)
		if x.retain(ts, oi, op, "Scalar.MarshalBinary", mb) {
			return true
		}
	}
	o := secp.Order()
	x.yp()
	if x.strict() && !bytes.Equal(o, model.SEncode(model.N)[:]) {
		x.fail(ts, oi, op, "M-ref", "order", fmt.Sprintf("Order() = %x", o))
		return true
	}
	ts.extra = append(ts.extra, o...)
	return x.retain(ts, oi, op, "Order", o)
}

// burst is a caller action: a long series of encoding calls in a row (C15). A
// library that carves its results out of a slab or a ring which it rewinds
// after some tens of thousands of results hands out memory it has handed out
// before; no ordinary history is long enough to see that. The first results, a
// sample of the later ones and the last ones are kept like every other returned
// slice (freshness now, stability later); every other result is only checked
// for overlap with the kept ones.
func (x *Env) burst(ts *taskState, oi int, op *Op) {
	n := int(op.U)
	if len(ts.E) == 0 {
		return
	}
	e1, e2 := ts.E[op.R%len(ts.E)], ts.E[(op.R+1)%len(ts.E)]
	var sc *secp.Scalar
	if len(ts.S) > 0 {
		sc = ts.S[op.R%len(ts.S)]
	}
	for i := 0; i < n && !x.abort; i++ {
		var b []byte
		var what string
		switch i % 4 {
		case 0:
			b, what = e1.Encode(), "Element.Encode"
		case 1:
			b, what = e2.EncodeUncompressed(), "Element.EncodeUncompressed"
		case 2:
			if sc != nil {
				b, what = sc.Encode(), "Scalar.Encode"
			} else {
				b, what = e2.Encode(), "Element.Encode"
			}
		default:
			b, what = e1.XCoordinate(), "Element.XCoordinate"
		}
		if i < 64 || i%512 == 0 || i >= n-32 {
			if x.retain(ts, oi, op, fmt.Sprintf("%s (call %d of a burst of %d)", what, i, n), b) {
				return
			}
			continue
		}
		if cap(b) == 0 {
			continue
		}
		p := uintptr(unsafe.Pointer(unsafe.SliceData(b)))
		rg := MemRange{p, p + uintptr(cap(b))}
		for k := range ts.rets {
			if rg.Overlaps(ts.rets[k].r) {
				x.fail(ts, oi, op, "M-fresh", what, fmt.Sprintf("slice returned by %s (call %d of a burst of %d) shares memory with the slice returned earlier by %s (op #%d)", what, i, n, ts.rets[k].what, ts.rets[k].op))
				return
			}
		}
	}
	x.St.Probes["encode_burst_calls"] += uint64(n)
}

// retain keeps a returned slice alive and checks that its backing array is
// fresh: disjoint from caller memory, package state, live variables and every
// slice returned before.
func (x *Env) retain(ts *taskState, oi int, op *Op, what string, b []byte) bool {
	if cap(b) == 0 {
		return false
	}
	p := uintptr(unsafe.Pointer(unsafe.SliceData(b)))
	rg := MemRange{p, p + uintptr(cap(b))}
	bad := func(with string) bool {
		x.fail(ts, oi, op, "M-fresh", what, fmt.Sprintf("slice returned by %s shares memory with %s", what, with))
		return true
	}
	if x.Ar != nil {
		lo, hi := x.Ar.Range()
		if rg.Overlaps(MemRange{lo, hi}) {
			return bad("caller-owned argument memory")
		}
	}
	for _, h := range x.heapIn {
		if rg.Overlaps(h) {
			return bad("a caller-owned input buffer")
		}
	}
	if n, ok := x.G.Overlap(rg); ok {
		return bad(stateName(n))
	}
	for i, e := range ts.E {
		q := uintptr(unsafe.Pointer(e))
		if rg.Overlaps(MemRange{q, q + elemSize}) {
			return bad(fmt.Sprintf("element variable %d", i))
		}
	}
	for i, s := range ts.S {
		q := uintptr(unsafe.Pointer(s))
		if rg.Overlaps(MemRange{q, q + scalSize}) {
			return bad(fmt.Sprintf("scalar variable %d", i))
		}
	}
	for i := range ts.rets {
		if rg.Overlaps(ts.rets[i].r) {
			return bad(fmt.Sprintf("the slice returned earlier by %s (op #%d)", ts.rets[i].what, ts.rets[i].op))
		}
	}
	ts.rets = append(ts.rets, retained{b: b, img: append([]byte(nil), b...), what: what, op: oi, r: rg})
	x.St.Retained++
	return false
}

func (x *Env) newTask(id, ne, ns int) *taskState {
	ts := newTask(id, ne, ns)
	x.all = append(x.all, ts)
	if x.useVa {
		x.Va.SetAll(ne+ns, true)
		x.home(ts)
		x.Va.SetAll(ne+ns, false)
	}
	return ts
}

func newTask(id, ne, ns int) *taskState {
	ts := &taskState{id: id}
	for i := 0; i < ne; i++ {
		ts.E = append(ts.E, secp.NewElement())
		ts.ME = append(ts.ME, model.Inf())
	}
	for i := 0; i < ns; i++ {
		ts.S = append(ts.S, secp.NewScalar())
		ts.MS = append(ts.MS, new(big.Int))
	}
	return ts
}

func (x *Env) runTask(ts *taskState, ops []Op) {
	for i := range ops {
		if x.abort {
			return
		}
		x.step(ts, i, &ops[i])
	}
}

// Result of executing a run.
type Result struct {
	Violation *Violation
	Stats     *Stats
	Incon     error
	// Poisoned: goroutines of this run are stuck inside the library (deadlock);
	// the process must not execute further runs.
	Poisoned bool
}

// Exec executes a run. globals must have been captured at process start.
func Exec(run *Run, ar *arena.Arena, va *arena.Vars, g *Globals, sites *SiteTable) (res Result) {
	x := &Env{R: run, G: g, St: NewStats(), Sites: sites, Va: va}
	if sites != nil {
		x.seen = sites.Seen
	}
	res.Stats = x.St
	debug.SetPanicOnFault(true)
	defer func() {
		if r := recover(); r != nil {
			res.Incon = Inconclusive{fmt.Sprintf("harness panic: %v\n%s", r, debug.Stack())}
		}
	}()

	// ---- caller memory
	if run.Arena {
		if ar == nil {
			return Result{Incon: Inconclusive{"arena required"}, Stats: x.St}
		}
		x.Ar = ar
		x.protect0 = ar.Protects
		ar.Reset()
		defer ar.Reset()
	}
	for _, b := range run.Backings {
		d := b.Data()
		if run.Arena {
			_, mem, err := ar.Alloc(len(d))
			if err != nil {
				return Result{Incon: Inconclusive{err.Error()}, Stats: x.St}
			}
			copy(mem, d)
			x.backs = append(x.backs, mem)
		} else {
			mem := make([]byte, len(d))
			copy(mem, d)
			x.backs = append(x.backs, mem)
			if len(mem) > 0 {
				p := uintptr(unsafe.Pointer(&mem[0]))
				x.heapIn = append(x.heapIn, MemRange{p, p + uintptr(len(mem))})
			}
		}
	}

	// ---- entropy device
	if run.Entropy.Stream == nil && (run.Entropy.Hex != "" || run.Entropy.Rep != nil) {
		if err := run.Entropy.Expand(); err != nil {
			return Result{Incon: Inconclusive{"bad entropy hex"}, Stats: x.St}
		}
	}
	if run.Entropy.Rep != nil {
		x.St.Faults["entropy_long_run_of_rejected_blocks"]++
		if run.Entropy.Rep.Count >= 1<<16 {
			x.St.Probes["rejection_run_of_65536_blocks_or_more"]++
		}
	}
	newDev := func() {
		x.rq, x.wide, x.pool, x.randHist = nil, false, false, nil
		x.Dev = entropy.NewDevice(run.Entropy)
		x.Dev.Cur = func() int {
			if x.Sch != nil && x.Sch.Active() {
				c := x.Sch.Cur()
				if c < len(x.schedIDs) {
					return x.schedIDs[c]
				}
				// a goroutine the library started reads on behalf of the caller
				// that started it
				if r := x.Sch.Root(c); r >= 0 && r < len(x.schedIDs) {
					return x.schedIDs[r]
				}
				if x.curTask != nil {
					return x.curTask.id
				}
				return x.Sch.Cur()
			}
			if x.curTask != nil {
				return x.curTask.id
			}
			return 0
		}
		x.Dev.Yield = func() {
			if x.Sch != nil && x.Sch.Active() {
				x.Sch.Hook(SiteEntropy)
			}
		}
		crand.Reader = x.Dev
		if run.Entropy.ByteReader && run.Entropy.Playback == nil {
			crand.Reader = entropy.ByteDevice{Device: x.Dev}
		}
	}
	savedReader := crand.Reader
	defer func() { crand.Reader = savedReader }()
	newDev()

	if name, ok := g.CheckDeep(); !ok && run.Prop == "C16" && !noMGlob {
		return Result{Incon: Inconclusive{"global " + name + " already differs from the start-up snapshot"}, Stats: x.St}
	}

	concurrent := len(run.Tasks) > 1 || run.Build != "plain" || len(run.Switches) > 0

	// When the library starts goroutines of its own, every sequential section
	// that calls it (setup, single-task runs, the solo pre-pass) also runs under
	// a scheduler (serial policy: a goroutine the library starts runs when its
	// parent blocks or finishes), so that those goroutines are never outside the
	// simulator's control and a sequential section is a deterministic execution.
	libGo := sites != nil && sites.GoStmt > 0
	var soloSteps uint64
	underSched := func(ts *taskState, ops []Op) {
		ss := sched.New(sched.Spec{Policy: "serial"}, prng.New(1), 0, nil)
		ss.MayBlock = true
		ss.Seen = x.seen
		x.Sch = ss
		x.schedIDs = []int{ts.id}
		secp.VerifSetYieldHook(ss.Hook)
		secp.VerifSetSpawnHook(ss.Spawn)
		secp.VerifSetPauseHook(ss.Pause)
		ss.Run([]func(){func() { x.runTask(ts, ops) }})
		secp.VerifSetYieldHook(nil)
		secp.VerifSetSpawnHook(nil)
		secp.VerifSetPauseHook(nil)
		x.Sch = nil
		soloSteps += ss.Step
		if ss.Cut > 0 {
			x.poisoned = true
		}
		if ss.Deadlock != nil && ss.TaskPanic != nil {
			// a goroutine started by the library panicked (the process would have
			// died) and its caller waits for it for ever: not a verdict about
			// liveness
			x.poisoned = true
			x.bad(fmt.Sprintf("a goroutine started by the library ended with a panic (%v); its caller never returns", ss.TaskPanic))
		} else if ss.Deadlock != nil {
			x.poisoned = true
			if run.Prop == "C16" {
				x.fail(ts, ts.curOp, ts.curOpP, "M-live", "deadlock", "a call made by a single caller never returns: "+ss.Deadlock.Error())
			} else {
				x.bad(ss.Deadlock.Error())
			}
		} else if ss.Aborted != nil {
			x.bad(ss.Aborted.Error())
		} else if ss.TaskPanic != nil {
			x.bad(fmt.Sprintf("task panicked outside an op: %v", ss.TaskPanic))
		}
	}
	seq := func(ts *taskState, ops []Op) {
		if libGo {
			underSched(ts, ops)
		} else {
			x.runTask(ts, ops)
		}
	}

	// ---- setup phase (sequential)
	x.phase = "setup"
	setup := x.newTask(-1, run.NE, run.NS)
	if len(run.Setup) > 0 {
		if x.Ar != nil {
			x.Ar.Protect()
		}
		seq(setup, run.Setup)
		if x.Ar != nil {
			x.Ar.Unprotect()
		}
		if x.abort {
			return x.finish()
		}
	}
	if concurrent && run.Arena && !PointerFree() {
		// the argument types hold pointers on this tree: they cannot live in
		// untracked memory, so the shared pool stays on the heap and is guarded by
		// byte comparison after every call instead of by the write trap
		x.St.Probes["shared_pool_on_heap_types_contain_pointers"]++
	}
	if concurrent && run.Arena && PointerFree() {
		for i, e := range setup.E {
			_, mem, err := ar.Alloc(int(elemSize))
			if err != nil {
				return Result{Incon: Inconclusive{err.Error()}, Stats: x.St}
			}
			copy(mem, unsafe.Slice((*byte)(unsafe.Pointer(e)), elemSize))
			x.sharedE = append(x.sharedE, (*secp.Element)(unsafe.Pointer(&mem[0])))
			x.shME = append(x.shME, setup.ME[i])
		}
		for i, s := range setup.S {
			if setup.MS[i] == nil {
				setup.MS[i] = new(big.Int).SetBytes(s.Encode())
			}
			_, mem, err := ar.Alloc(int(scalSize))
			if err != nil {
				return Result{Incon: Inconclusive{err.Error()}, Stats: x.St}
			}
			copy(mem, unsafe.Slice((*byte)(unsafe.Pointer(s)), scalSize))
			x.sharedS = append(x.sharedS, (*secp.Scalar)(unsafe.Pointer(&mem[0])))
			x.shMS = append(x.shMS, setup.MS[i])
		}
	} else if concurrent {
		x.sharedE, x.shME, x.sharedS, x.shMS = setup.E, setup.ME, setup.S, setup.MS
		for i, sc := range setup.S {
			if setup.MS[i] == nil {
				setup.MS[i] = new(big.Int).SetBytes(sc.Encode())
			}
		}
	}
	for _, e := range x.sharedE {
		x.shRawE = append(x.shRawE, rawCopy(unsafe.Pointer(e), elemSize))
	}
	for _, sc := range x.sharedS {
		x.shRawS = append(x.shRawS, rawCopy(unsafe.Pointer(sc), scalSize))
	}
	if concurrent && !PointerFree() {
		for _, e := range x.sharedE {
			h, _ := deepHash(reflect.ValueOf(e), false)
			x.shDeepE = append(x.shDeepE, h)
		}
		for _, sc := range x.sharedS {
			h, _ := deepHash(reflect.ValueOf(sc), false)
			x.shDeepS = append(x.shDeepS, h)
		}
	}

	if x.Ar != nil {
		x.Ar.Protect()
		defer x.Ar.Unprotect()
	}

	if !concurrent {
		x.phase = "single"
		if run.Prop == "C15" && run.Arena && va != nil && PointerFree() && run.NE+run.NS <= va.N() && len(run.Setup) == 0 {
			x.useVa = true
			defer va.SetAll(va.N(), true)
			x.St.Probes["variables_in_guarded_pages"]++
		}
		hasScribble := false
		var baseCopy []uint64
		if len(run.Tasks) == 1 {
			for _, o := range run.Tasks[0] {
				if o.K == "scribble" {
					hasScribble = true
				}
			}
		}
		if run.Prop == "C15" && hasScribble && len(run.Setup) == 0 {
			// reference execution without caller writes, then the real one
			x.dry = true
			ref := x.newTask(0, run.NE, run.NS)
			seq(ref, run.Tasks[0])
			x.dry = false
			if x.abort {
				return x.finish()
			}
			x.base = ref.digest
			baseCopy = ref.digest
			x.all = nil
			newDev()
		}
		var ts *taskState
		if len(run.Setup) > 0 {
			ts = setup
			ts.id = 0
		} else {
			ts = x.newTask(0, run.NE, run.NS)
		}
		if len(run.Tasks) == 1 {
			seq(ts, run.Tasks[0])
		}
		if x.base != nil && !x.abort && len(ts.digest) != len(x.base) {
			x.fail(ts, len(run.Tasks[0])-1, nil, "M-scribble", "length", "the execution with caller writes made a different number of observations than the reference execution")
		}
		if x.viol != nil && x.viol.Monitor == "M-scribble" {
			// the verdict rests on "the reference execution is what this history
			// produces": check that a second reference execution agrees with the
			// first. If it does not, the library is not a function of the history
			// (hidden state), and the difference says nothing about buffers.
			v := x.viol
			x.viol, x.abort, x.base = nil, false, nil
			x.dry = true
			x.all = nil
			newDev()
			ref2 := x.newTask(0, run.NE, run.NS)
			seq(ref2, run.Tasks[0])
			x.dry = false
			same := x.viol == nil && len(ref2.digest) == len(baseCopy)
			for k := 0; same && k < len(baseCopy); k++ {
				same = ref2.digest[k] == baseCopy[k]
			}
			if same {
				x.viol, x.abort = v, true
			} else {
				x.viol, x.abort = nil, false
				x.St.Probes["scribble_reference_not_repeatable_verdict_withheld"]++
			}
		}
		return x.finish()
	}

	// ---- solo pre-pass: each task alone. Without library goroutines the
	// yields are merely counted; with them the task runs under the scheduler
	// (serial policy: a goroutine the library starts runs when its parent blocks
	// or finishes), so that "alone" is itself a deterministic execution.
	x.phase = "solo"
	alone := func(ts *taskState, ops []Op) {
		if !libGo {
			secp.VerifSetYieldHook(func(site uint32) {
				soloSteps++
				if int(site) < len(x.seen) {
					x.seen[site] = true
				}
			})
			x.runTask(ts, ops)
			secp.VerifSetYieldHook(nil)
			return
		}
		underSched(ts, ops)
	}
	x.solo = make([][]uint64, len(run.Tasks))
	hasRandom := make([]bool, len(run.Tasks))
	for ti, ops := range run.Tasks {
		for _, o := range ops {
			if o.K == "s.random" {
				hasRandom[ti] = true
			}
		}
		if run.Prop != "C16" {
			continue // "as if run alone" is C16's statement
		}
		ts := x.newTask(ti, run.NE, run.NS)
		alone(ts, ops)
		if x.abort {
			return x.finish()
		}
		if !hasRandom[ti] {
			x.solo[ti] = ts.digest
		}
	}
	if run.EstSteps == 0 {
		run.EstSteps = soloSteps
		if soloSteps == 0 {
			for _, ops := range run.Tasks {
				run.EstSteps += 20000 * uint64(len(ops))
			}
		}
	}

	// ---- concurrent phase
	x.phase = "concurrent"
	newDev()
	rng := prng.New(prng.Mix(run.Seed, 0x5c4ed))
	var siteIn func(uint32) bool
	if run.Sched.Policy == "site" && sites != nil {
		siteIn = sites.InFuncs(run.Sched.Funcs)
	}
	s := sched.New(run.Sched, rng, run.EstSteps, siteIn)
	if run.UseSwitches {
		s.UseList = true
		s.Replay = run.Switches
	}
	if sites != nil {
		s.MayBlock = sites.MayBlock
		s.Seen = x.seen
	}
	x.Sch = s
	x.schedIDs = nil
	for ti := range run.Tasks {
		x.schedIDs = append(x.schedIDs, ti)
	}
	states := make([]*taskState, len(run.Tasks))
	s.OnStep = func(site uint32) {
		if name, ok := g.CheckRaw(); !ok && x.viol == nil && run.Prop == "C16" && !noMGlob {
			where := ""
			if sites != nil {
				where = " at " + sites.Describe(site)
			}
			ts := states[s.Cur()%len(states)]
			x.fail(ts, ts.curOp, ts.curOpP, "M-glob", name, fmt.Sprintf("%s modified during a call%s", stateName(name), where))
		}
	}
	fns := make([]func(), len(run.Tasks))
	for ti := range run.Tasks {
		ti := ti
		states[ti] = x.newTask(ti, run.NE, run.NS)
		fns[ti] = func() {
			x.runTaskConc(states[ti], run.Tasks[ti])
		}
	}
	secp.VerifSetYieldHook(s.Hook)
	secp.VerifSetSpawnHook(s.Spawn)
	secp.VerifSetPauseHook(s.Pause)
	s.Run(fns)
	secp.VerifSetYieldHook(nil)
	secp.VerifSetSpawnHook(nil)
	secp.VerifSetPauseHook(nil)
	x.St.Steps = s.Step
	x.St.Switches = uint64(len(s.Switches))
	x.St.InOpSw = s.InOpSw
	x.St.TraceHash = s.Hash
	run.Switches = s.Switches
	if s.Deadlock != nil && s.TaskPanic != nil {
		x.poisoned = true
		if x.viol == nil {
			x.incon = Inconclusive{fmt.Sprintf("a goroutine started by the library ended with a panic (%v); its caller never returns", s.TaskPanic)}
		}
	} else if s.Deadlock != nil {
		x.poisoned = true
		x.St.Probes["library_deadlock"]++
		if run.Prop == "C16" && x.viol == nil {
			ts := states[s.Deadlock.Blocked[0]%len(states)]
			x.fail(ts, ts.curOp, ts.curOpP, "M-live", "deadlock", "concurrent calls never return: "+s.Deadlock.Error())
		} else if x.viol == nil {
			x.incon = Inconclusive{s.Deadlock.Error()}
		}
	} else if s.Aborted != nil {
		x.incon = Inconclusive{s.Aborted.Error()}
	}
	if s.BlockedN > 0 {
		x.St.Probes["task_blocked_inside_library"] += s.BlockedN
	}
	if s.Cut > 0 {
		x.poisoned = true
	}
	if s.Adopted > 0 {
		x.St.Probes["library_goroutines_adopted_at_a_yield"] += uint64(s.Adopted)
	}
	if s.Leftover > 0 {
		// goroutines the library started are still waiting (a worker pool); the
		// next scheduled phase inherits them
		x.St.Probes["library_goroutines_left_waiting"] += uint64(s.Leftover)
	}
	if s.TaskPanic != nil && x.incon == nil {
		x.incon = Inconclusive{fmt.Sprintf("task panicked outside an op: %v", s.TaskPanic)}
	}
	if s.SpawnedN > 0 {
		x.St.Probes["library_spawned_goroutines"] += uint64(s.SpawnedN)
	}
	// ---- tasks that drew entropy: "what it would return if run alone" is
	// decided by re-running each of them alone on exactly the reads (bytes,
	// chunking, failures) it was served in the concurrent run
	if x.viol == nil && x.incon == nil && !x.poisoned && run.Prop == "C16" {
		x.phase = "solo-playback"
		x.Sch = nil
		concLog := x.Dev.Log
		for ti := range run.Tasks {
			if !hasRandom[ti] || x.abort {
				continue
			}
			var pb []entropy.Rec
			for _, rec := range concLog {
				if rec.Task == ti {
					pb = append(pb, rec)
				}
			}
			if pb == nil {
				pb = []entropy.Rec{}
			}
			x.rq, x.wide, x.pool, x.randHist = nil, false, false, nil
			x.Dev = entropy.NewDevice(entropy.Script{Playback: pb})
			tid := ti
			x.Dev.Cur = func() int { return tid }
			crand.Reader = x.Dev
			at := x.newTask(ti, run.NE, run.NS)
			alone(at, run.Tasks[ti])
			if x.abort {
				break
			}
			conc := states[ti].digest
			for k := 0; k < len(conc) || k < len(at.digest); k++ {
				if k >= len(conc) || k >= len(at.digest) || conc[k] != at.digest[k] {
					oi := min(k, len(run.Tasks[ti])-1)
					x.fail(states[ti], oi, &run.Tasks[ti][oi], "M-solo", "observe", "observable state after this call differs from the same task run alone on the same entropy reads")
					break
				}
			}
			x.St.Probes["random_task_replayed_alone"]++
		}
	}
	// schedule signature: sequence of (from,to,site) of in-op switches
	var sh uint64 = 0xcbf29ce484222325
	for _, sw := range s.Switches {
		sh = (sh ^ uint64(sw.Site) ^ uint64(sw.To)<<40 ^ uint64(uint32(sw.From))<<48) * 0x100000001b3
		if !sw.Exit && sites != nil {
			x.St.Probes["switch_in:"+sites.Func(sw.Site)]++
		}
	}
	x.St.SchedHash = sh
	return x.finish()
}

// runTaskConc is runTask for the concurrent phase: the current-task pointer
// has to follow the token.
func (x *Env) runTaskConc(ts *taskState, ops []Op) {
	for i := range ops {
		if x.abort {
			return
		}
		x.stepConc(ts, i, &ops[i])
	}
}

func (x *Env) stepConc(ts *taskState, oi int, op *Op) {
	x.step(ts, oi, op)
}

func (x *Env) finish() Result {
	if x.Dev != nil {
		for k, v := range x.Dev.Fired {
			x.St.Faults["entropy_"+k] += uint64(v)
		}
	}
	if x.Ar != nil {
		x.St.Faults["arena_write_protect_armed"] += x.Ar.Protects - x.protect0
	}
	var oh uint64 = 0xcbf29ce484222325
	for _, ts := range x.all {
		oh = (oh ^ uint64(int64(ts.id))) * 0x100000001b3
		for _, d := range ts.digest {
			oh = (oh ^ d) * 0x100000001b3
		}
	}
	x.St.ObsHash = oh
	if x.incon != nil {
		return Result{Incon: x.incon, Stats: x.St, Poisoned: x.poisoned}
	}
	return Result{Violation: x.viol, Stats: x.St, Poisoned: x.poisoned}
}

var _ = io.EOF
var _ = errors.New

// stateName words a registered variable: a package-level variable, or a local
// variable that a closure built during package initialisation keeps alive.
func stateName(n string) string {
	if strings.Contains(n, "(local variable captured") || strings.Contains(n, "(sync.Once") {
		return "package state " + n
	}
	return "package-level variable " + n
}
