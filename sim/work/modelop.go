package work

import (
	"encoding/hex"
	"fmt"
	"math/big"

	"verifsim/model"
)

// MState is the abstract state of one task: each element variable is a point
// of the group, each scalar variable an integer mod n (nil = unspecified).
type MState struct {
	ME   []model.Point
	MS   []*big.Int
	ShME []model.Point
	ShMS []*big.Int
}

// NewMState returns the initial state (identities and zeros).
func NewMState(ne, ns int) *MState {
	m := &MState{}
	for i := 0; i < ne; i++ {
		m.ME = append(m.ME, model.Inf())
	}
	for i := 0; i < ns; i++ {
		m.MS = append(m.MS, new(big.Int))
	}
	return m
}

func (m *MState) eRef(ref int) (model.Point, bool, error) {
	switch {
	case ref == -1:
		return model.Point{}, true, nil
	case ref >= 0:
		if ref >= len(m.ME) {
			return model.Point{}, false, fmt.Errorf("element var %d out of range", ref)
		}
		return m.ME[ref], false, nil
	default:
		i := -(ref + 2)
		if i >= len(m.ShME) {
			return model.Point{}, false, fmt.Errorf("shared element %d out of range", i)
		}
		return m.ShME[i], false, nil
	}
}

func (m *MState) sRef(ref int) (*big.Int, bool, error) {
	switch {
	case ref == -1:
		return nil, true, nil
	case ref >= 0:
		if ref >= len(m.MS) {
			return nil, false, fmt.Errorf("scalar var %d out of range", ref)
		}
		if m.MS[ref] == nil {
			return nil, false, fmt.Errorf("scalar var %d is unspecified", ref)
		}
		return m.MS[ref], false, nil
	default:
		i := -(ref + 2)
		if i >= len(m.ShMS) {
			return nil, false, fmt.Errorf("shared scalar %d out of range", i)
		}
		return m.ShMS[i], false, nil
	}
}

// mOut is the model's verdict for an op.
type mOut struct {
	panics bool
	errs   bool
	setE   *model.Point
	setS   *big.Int
	unspec bool // scalar receiver unspecified afterwards
	eqWant int  // for *.equal: expected result (0/1), -1 if not an equality op
}

// IsElemOp reports whether the op's receiver is an element variable.
func IsElemOp(k string) bool { return len(k) > 0 && k[0] == 'e' }

// ArgIsScalar reports whether the op's pointer arguments are scalars.
func ArgIsScalar(k string) bool { return k == "e.mul" || (len(k) > 0 && k[0] == 's') }

type counter interface{ hit(kind, name string) }

type nopCounter struct{}

func (nopCounter) hit(string, string) {}

func (s *Stats) hit(kind, name string) {
	if kind == "fault" {
		s.Faults[name]++
	} else {
		s.Probes[name]++
	}
}

// ModelEval computes what the specification says op does in state m. bs are
// the byte-slice arguments as the callee will see them. It does not modify m.
// A non-nil error means the op is malformed (harness trouble).
func ModelEval(m *MState, op *Op, bs [][]byte, c counter) (mOut, error) {
	if c == nil {
		c = nopCounter{}
	}
	mo := mOut{eqWant: -1}
	r := op.R
	if op.K == "scribble" || op.K == "burst" {
		return mo, nil
	}
	if IsElemOp(op.K) {
		if r < 0 || r >= len(m.ME) {
			return mo, fmt.Errorf("receiver out of range in %s", op)
		}
	} else if r < 0 || r >= len(m.MS) {
		return mo, fmt.Errorf("receiver out of range in %s", op)
	}
	needA := func(n int) error {
		if len(op.A) < n {
			return fmt.Errorf("malformed op %s", op)
		}
		return nil
	}
	needB := func(n int) error {
		if len(bs) < n {
			return fmt.Errorf("malformed op %s", op)
		}
		return nil
	}
	setE := func(p model.Point) { mo.setE = &p }
	curS := func() (*big.Int, error) {
		if m.MS[r] == nil {
			return nil, fmt.Errorf("scalar receiver %d unspecified", r)
		}
		return m.MS[r], nil
	}

	switch op.K {
	case "e.new", "e.identity":
		setE(model.Inf())
	case "e.basefn", "e.base":
		setE(model.G())
	case "e.set", "e.copy":
		if err := needA(1); err != nil {
			return mo, err
		}
		p, isNil, err := m.eRef(op.A[0])
		if err != nil || isNil {
			return mo, fmt.Errorf("%s needs a non-nil argument", op.K)
		}
		setE(p.Clone())
	case "e.add", "e.sub":
		if err := needA(1); err != nil {
			return mo, err
		}
		q, isNil, err := m.eRef(op.A[0])
		if err != nil {
			return mo, err
		}
		if isNil {
			c.hit("fault", "nil_argument")
			break
		}
		p := m.ME[r]
		if op.K == "e.sub" {
			q = model.Neg(q)
		}
		probeAdd(c, p, q, op.A[0] == r)
		setE(model.Add(p, q))
	case "e.double":
		if m.ME[r].IsInf() {
			c.hit("probe", "double_identity")
		}
		setE(model.Double(m.ME[r]))
	case "e.negate":
		if m.ME[r].IsInf() {
			c.hit("probe", "negate_identity")
		}
		setE(model.Neg(m.ME[r]))
	case "e.mul":
		if err := needA(1); err != nil {
			return mo, err
		}
		k, isNil, err := m.sRef(op.A[0])
		if err != nil {
			return mo, err
		}
		if isNil {
			c.hit("fault", "nil_argument")
			setE(model.Inf())
			break
		}
		if k.Bit(255) == 1 {
			c.hit("probe", "mul_scalar_bit255_set")
		}
		if k.Sign() == 0 {
			c.hit("probe", "mul_by_zero")
		}
		if k.Cmp(big.NewInt(1)) == 0 {
			c.hit("probe", "mul_by_one")
		}
		if m.ME[r].IsInf() {
			c.hit("probe", "mul_of_identity")
		}
		setE(model.Mul(k, m.ME[r]))
	case "e.decode", "e.unmarshal", "e.decodec", "e.decodeu":
		if err := needB(1); err != nil {
			return mo, err
		}
		var p model.Point
		var merr error
		switch op.K {
		case "e.decodec":
			p, merr = model.DecodeCompressed(bs[0])
		case "e.decodeu":
			p, merr = model.DecodeUncompressed(bs[0])
		default:
			p, merr = model.Decode(bs[0])
		}
		if merr != nil {
			mo.errs = true
			c.hit("fault", "failed_element_decode")
			if !m.ME[r].IsInf() {
				c.hit("probe", "failed_decode_onto_nonidentity_receiver")
			}
		} else {
			setE(p)
		}
	case "e.decodexy":
		if len(op.X) != 2 {
			return mo, fmt.Errorf("e.decodexy needs two coordinates")
		}
		xb, e1 := hex.DecodeString(op.X[0])
		yb, e2 := hex.DecodeString(op.X[1])
		if e1 != nil || e2 != nil || len(xb) != 32 || len(yb) != 32 {
			return mo, fmt.Errorf("e.decodexy: bad coordinates")
		}
		p, merr := model.DecodeCoordinates(xb, yb)
		if merr != nil {
			mo.errs = true
			c.hit("fault", "failed_element_decode")
		} else {
			setE(p)
		}
	case "e.decodehex":
		raw, herr := hex.DecodeString(op.H)
		if herr != nil {
			mo.errs = true
			c.hit("fault", "failed_element_decode")
		} else if p, merr := model.Decode(raw); merr != nil {
			mo.errs = true
			c.hit("fault", "failed_element_decode")
		} else {
			setE(p)
		}
	case "e.h2g", "e.e2g":
		if err := needB(2); err != nil {
			return mo, err
		}
		msg, dst := bs[0], bs[1]
		if len(dst) == 0 {
			mo.panics = true
			c.hit("fault", "empty_dst")
			break
		}
		if len(dst) > 255 {
			c.hit("probe", "oversize_dst")
		}
		if cap(dst) > len(dst) {
			c.hit("probe", "dst_with_spare_capacity")
		}
		if op.K == "e.h2g" {
			setE(model.HashToCurve(msg, dst))
		} else {
			setE(model.EncodeToCurve(msg, dst))
		}
	case "e.equal":
		if err := needA(1); err != nil {
			return mo, err
		}
		q, isNil, err := m.eRef(op.A[0])
		if err != nil || isNil {
			return mo, fmt.Errorf("e.equal needs a non-nil argument")
		}
		mo.eqWant = b2i(m.ME[r].Eq(q))

	// ---------------- scalars
	case "s.new", "s.zero":
		mo.setS = new(big.Int)
	case "s.one":
		mo.setS = big.NewInt(1)
	case "s.minusone":
		mo.setS = new(big.Int).Sub(model.N, big.NewInt(1))
	case "s.setu64":
		mo.setS = new(big.Int).SetUint64(op.U)
	case "s.set":
		if err := needA(1); err != nil {
			return mo, err
		}
		v, isNil, err := m.sRef(op.A[0])
		if err != nil {
			return mo, err
		}
		if isNil {
			c.hit("fault", "nil_argument")
			mo.setS = new(big.Int)
		} else {
			mo.setS = new(big.Int).Set(v)
		}
	case "s.copy":
		if err := needA(1); err != nil {
			return mo, err
		}
		v, isNil, err := m.sRef(op.A[0])
		if err != nil || isNil {
			return mo, fmt.Errorf("s.copy needs a specified non-nil argument")
		}
		mo.setS = new(big.Int).Set(v)
	case "s.add", "s.sub", "s.mul":
		if err := needA(1); err != nil {
			return mo, err
		}
		t, isNil, err := m.sRef(op.A[0])
		if err != nil {
			return mo, err
		}
		if isNil {
			c.hit("fault", "nil_argument")
			if op.K == "s.mul" {
				mo.setS = new(big.Int)
			}
			break
		}
		cur, err := curS()
		if err != nil {
			return mo, err
		}
		if op.A[0] == r {
			c.hit("probe", "binary_op_receiver_is_argument")
		}
		v := new(big.Int)
		switch op.K {
		case "s.add":
			v.Add(cur, t)
		case "s.sub":
			v.Sub(cur, t)
		default:
			v.Mul(cur, t)
		}
		mo.setS = model.SMod(v)
	case "s.square":
		cur, err := curS()
		if err != nil {
			return mo, err
		}
		mo.setS = model.SMod(new(big.Int).Mul(cur, cur))
	case "s.invert":
		cur, err := curS()
		if err != nil {
			return mo, err
		}
		if cur.Sign() == 0 {
			c.hit("probe", "invert_zero")
		}
		mo.setS = model.SInv(cur)
	case "s.pow":
		if err := needA(1); err != nil {
			return mo, err
		}
		t, isNil, err := m.sRef(op.A[0])
		if err != nil {
			return mo, err
		}
		if isNil {
			c.hit("fault", "nil_argument")
			mo.setS = big.NewInt(1)
			break
		}
		cur, err := curS()
		if err != nil {
			return mo, err
		}
		if t.Bit(255) == 1 {
			c.hit("probe", "pow_exponent_bit255_set")
		}
		mo.setS = model.SPow(cur, t)
	case "s.cselect":
		if err := needA(2); err != nil {
			return mo, err
		}
		if op.U > 1 {
			return mo, fmt.Errorf("s.cselect is only driven with condition words 0 and 1")
		}
		u, n1, err := m.sRef(op.A[0])
		if err != nil {
			return mo, err
		}
		v, n2, err := m.sRef(op.A[1])
		if err != nil {
			return mo, err
		}
		switch {
		case n1 || n2:
			mo.errs = true
			c.hit("fault", "nil_argument")
		case op.U == 0:
			mo.setS = new(big.Int).Set(u)
		default:
			mo.setS = new(big.Int).Set(v)
		}
	case "s.decode", "s.unmarshal", "s.decodehex":
		var in []byte
		if op.K == "s.decodehex" {
			raw, herr := hex.DecodeString(op.H)
			if herr != nil {
				mo.errs = true
				c.hit("fault", "failed_scalar_decode_length_or_syntax")
				break
			}
			in = raw
		} else {
			if err := needB(1); err != nil {
				return mo, err
			}
			in = bs[0]
		}
		v, cls := model.SDecode(in)
		switch cls {
		case model.SDecOK:
			mo.setS = v
		case model.SDecTooBig:
			mo.errs = true
			mo.unspec = true
			c.hit("fault", "failed_scalar_decode_too_big")
		default:
			mo.errs = true
			c.hit("fault", "failed_scalar_decode_length_or_syntax")
		}
	case "s.random":
		// decided after the call from the device log (Env.modelRandom)
	case "s.h2s":
		if err := needB(2); err != nil {
			return mo, err
		}
		msg, dst := bs[0], bs[1]
		if len(dst) == 0 {
			mo.panics = true
			c.hit("fault", "empty_dst")
			break
		}
		if len(dst) > 255 {
			c.hit("probe", "oversize_dst")
		}
		if cap(dst) > len(dst) {
			c.hit("probe", "dst_with_spare_capacity")
		}
		mo.setS = model.HashToScalar(msg, dst)
	case "s.equal":
		if err := needA(1); err != nil {
			return mo, err
		}
		t, isNil, err := m.sRef(op.A[0])
		if err != nil {
			return mo, err
		}
		if isNil {
			mo.eqWant = 0
			break
		}
		cur, err := curS()
		if err != nil {
			return mo, err
		}
		mo.eqWant = b2i(cur.Cmp(t) == 0)
	default:
		return mo, fmt.Errorf("unknown op kind %q", op.K)
	}
	return mo, nil
}

// Apply updates the state with a verdict (generator-side tracking; the
// interpreter applies verdicts itself after comparing with the implementation).
func (m *MState) Apply(op *Op, mo mOut) {
	if IsElemOp(op.K) {
		if mo.setE != nil && !mo.panics {
			m.ME[op.R] = *mo.setE
		}
		return
	}
	if mo.panics {
		return
	}
	if mo.unspec {
		m.MS[op.R] = nil
	} else if mo.setS != nil {
		m.MS[op.R] = mo.setS
	}
}

func probeAdd(c counter, p, q model.Point, alias bool) {
	switch {
	case p.IsInf() && q.IsInf():
		c.hit("probe", "add_identity_identity")
	case p.IsInf() || q.IsInf():
		c.hit("probe", "add_with_one_identity")
	case p.Eq(q):
		c.hit("probe", "add_equal_points")
	case p.Eq(model.Neg(q)):
		c.hit("probe", "add_opposite_points")
	case p.X.Cmp(q.X) != 0 && p.Y.Cmp(q.Y) == 0:
		c.hit("probe", "add_points_sharing_y")
	}
	if alias {
		c.hit("probe", "binary_op_receiver_is_argument")
	}
}
