// Package work holds the explicit run description (the replay format), the
// interpreter that executes it against the real library and the model in
// lock-step, the monitors, and the seeded generators.
package work

import (
	"encoding/hex"
	"fmt"

	"verifsim/entropy"
	"verifsim/sched"
)

// Bytes is a byte-slice argument: a view (off, len, cap) of a backing array,
// a nil slice, or (Ret > 0) the (Ret-1)-th slice previously returned by the
// library in this task.
type Bytes struct {
	Nil bool `json:"nil,omitempty"`
	B   int  `json:"b"`
	Off int  `json:"off"`
	Len int  `json:"len"`
	Cap int  `json:"cap"`
	Ret int  `json:"ret,omitempty"`
}

// Backing is one caller-owned array. In arena runs it is placed flush against
// a guard page; in heap runs it is a make([]byte, size).
type Backing struct {
	Hex  string `json:"hex"`
	Note string `json:"note,omitempty"`
}

// Size returns the backing length.
func (b Backing) Size() int { return len(b.Hex) / 2 }

// Data decodes the contents.
func (b Backing) Data() []byte {
	d, err := hex.DecodeString(b.Hex)
	if err != nil {
		panic(fmt.Sprintf("work: bad backing hex: %v", err))
	}
	return d
}

// Op is one API call (or one caller action such as a scribble).
//
// R is the receiver / destination variable in the task's element or scalar
// pool (by the op's kind). A holds pointer arguments: >= 0 own variable,
// -1 nil, <= -2 shared variable -(A+2).
type Op struct {
	K string  `json:"k"`
	R int     `json:"r"`
	A []int   `json:"a,omitempty"`
	B []Bytes `json:"b,omitempty"`
	U uint64  `json:"u,omitempty"`
	// Q (quiet): the caller does not observe anything after this call.
	Q bool     `json:"q,omitempty"`
	H string   `json:"h,omitempty"`
	X []string `json:"x,omitempty"`
}

func (o Op) String() string {
	s := fmt.Sprintf("%s r=%d", o.K, o.R)
	if len(o.A) > 0 {
		s += fmt.Sprintf(" a=%v", o.A)
	}
	for _, b := range o.B {
		switch {
		case b.Nil:
			s += " bytes=nil"
		case b.Ret > 0:
			s += fmt.Sprintf(" bytes=ret#%d", b.Ret-1)
		default:
			s += fmt.Sprintf(" bytes=b%d[%d:%d:%d]", b.B, b.Off, b.Off+b.Len, b.Off+b.Cap)
		}
	}
	if o.U != 0 {
		s += fmt.Sprintf(" u=%d", o.U)
	}
	if o.H != "" {
		s += " h=" + o.H
	}
	if len(o.X) > 0 {
		s += fmt.Sprintf(" x=%v", o.X)
	}
	return s
}

// Run is one complete, explicit simulated execution. It is what a replay file
// contains; nothing in it refers to the PRNG.
type Run struct {
	Prop  string `json:"prop"`
	Seed  uint64 `json:"seed"`
	Index uint64 `json:"index"`
	Build string `json:"build"` // plain | yield-entry | yield-full
	// Procs is runtime.GOMAXPROCS of the process that executed the run (a
	// per-worker knob); a replay sets it before the first library call.
	Procs int `json:"gomaxprocs,omitempty"`
	NE    int `json:"ne"`
	NS    int `json:"ns"`
	// Arena: byte backings (and shared variables) live in guarded memory.
	Arena    bool      `json:"arena"`
	Backings []Backing `json:"backings,omitempty"`
	// Setup runs sequentially before the tasks; in concurrent runs its
	// variables then become the shared read-only pool.
	Setup   []Op           `json:"setup,omitempty"`
	Tasks   [][]Op         `json:"tasks"`
	Entropy entropy.Script `json:"entropy"`
	// ObsAll: observe every variable of the acting task after every step
	// (otherwise only the receiver).
	ObsAll bool `json:"obs_all"`
	// ObsOrder selects the order of the observer groups: 0 encode, identity/zero,
	// equal; 1 equal, identity/zero, encode; 2 identity/zero, equal, encode.
	ObsOrder int `json:"obs_order,omitempty"`
	// Aux: after every call also run the remaining read-only API functions on
	// the receiver and fold their results into the run-alone comparison (C16).
	Aux bool `json:"aux,omitempty"`
	// Returns: exercise and retain every slice-returning call (C15).
	Returns bool `json:"returns,omitempty"`
	// Sched is the generation-time policy; Switches the schedule actually
	// taken (filled in by execution; followed verbatim when UseSwitches).
	Sched       sched.Spec     `json:"sched"`
	Switches    []sched.Switch `json:"switches,omitempty"`
	UseSwitches bool           `json:"use_switches,omitempty"`
	EstSteps    uint64         `json:"est_steps,omitempty"`
	Config      map[string]any `json:"config,omitempty"`
}

// Violation is a monitor failure.
type Violation struct {
	Prop    string `json:"prop"`
	Monitor string `json:"monitor"`
	Task    int    `json:"task"`
	OpIdx   int    `json:"op_idx"`
	Op      string `json:"op"`
	Kind    string `json:"kind"` // op kind
	Detail  string `json:"detail"`
	// Sig identifies the violation class (used for shrinking and for matching
	// known findings): monitor, op kind and a monitor-specific site.
	Sig string `json:"sig"`
}

func (v *Violation) String() string {
	return fmt.Sprintf("%s %s task=%d op#%d {%s}: %s", v.Prop, v.Monitor, v.Task, v.OpIdx, v.Op, v.Detail)
}

// Stats are the counters a run contributes to the evidence.
type Stats struct {
	Ops        uint64            `json:"ops"`
	StateOps   uint64            `json:"state_ops"`
	FailedOps  uint64            `json:"failed_ops"`
	PanicOps   uint64            `json:"panic_ops"`
	Observes   uint64            `json:"observes"`
	Steps      uint64            `json:"steps"`
	Switches   uint64            `json:"switches"`
	InOpSw     uint64            `json:"in_op_switches"`
	Faults     map[string]uint64 `json:"faults"`
	Probes     map[string]uint64 `json:"probes"`
	OpKinds    map[string]uint64 `json:"op_kinds"`
	ProgHash   uint64            `json:"prog_hash"`
	SchedHash  uint64            `json:"sched_hash"`
	TraceHash  uint64            `json:"trace_hash"`
	ObsHash    uint64            `json:"obs_hash"`
	Retained   uint64            `json:"retained"`
	Scribbles  uint64            `json:"scribbles"`
	EntropyRd  uint64            `json:"entropy_reads"`
	Nontrivial bool              `json:"nontrivial"`
	Layouts    map[string]uint64 `json:"layouts"`
}

// NewStats returns zeroed stats.
func NewStats() *Stats {
	return &Stats{Faults: map[string]uint64{}, Probes: map[string]uint64{}, OpKinds: map[string]uint64{}, Layouts: map[string]uint64{}}
}

// Inconclusive is returned (as an error) for harness-side trouble: never a
// violation.
type Inconclusive struct{ Why string }

func (e Inconclusive) Error() string { return "inconclusive: " + e.Why }
