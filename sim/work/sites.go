package work

import (
	"encoding/json"
	"fmt"
	"os"
)

// SiteTable maps yield sites to source positions (written by cmd/instrument).
type SiteTable struct {
	Mode   string `json:"mode"`
	Module string `json:"module"`
	GoStmt int    `json:"go_stmts"`
	// MayBlock: the module under test uses synchronisation primitives, channels
	// or goroutines; the scheduler then runs its blocked-task monitor.
	MayBlock bool `json:"may_block"`
	// HotFuncs: functions that touch package-level state, synchronisation
	// primitives or start goroutines (syntactic scan).
	HotFuncs []string `json:"hot_funcs"`
	// SharedHot: functions that write a package-level variable or a variable
	// captured by a closure (state that outlives the call).
	SharedHot []string `json:"shared_hot_funcs"`
	// Seen is filled in by the runs of a worker: yield sites reached.
	Seen  []bool `json:"-"`
	Sites []struct {
		ID   uint32 `json:"id"`
		File string `json:"file"`
		Line int    `json:"line"`
		Func string `json:"func"`
		Kind string `json:"kind"`
	} `json:"sites"`
}

// LoadSites reads sites.json.
func LoadSites(path string) (*SiteTable, error) {
	raw, err := os.ReadFile(path)
	if err != nil {
		return nil, err
	}
	t := &SiteTable{}
	if err := json.Unmarshal(raw, t); err != nil {
		return nil, err
	}
	t.Seen = make([]bool, len(t.Sites))
	return t, nil
}

// Func returns the function containing a site.
func (t *SiteTable) Func(s uint32) string {
	if s == SiteEntropy {
		return "<entropy device>"
	}
	if t == nil || int(s) >= len(t.Sites) {
		return "?"
	}
	return t.Sites[s].Func
}

// Describe renders a site as file:line (func).
func (t *SiteTable) Describe(s uint32) string {
	if s == SiteEntropy {
		return "<entropy device read>"
	}
	if t == nil || int(s) >= len(t.Sites) {
		return fmt.Sprintf("site %d", s)
	}
	e := t.Sites[s]
	return fmt.Sprintf("%s:%d (%s)", e.File, e.Line, e.Func)
}

// Funcs lists the distinct function names that have yield sites.
func (t *SiteTable) Funcs() []string {
	seen := map[string]bool{}
	var out []string
	for _, s := range t.Sites[1:] {
		if !seen[s.Func] {
			seen[s.Func] = true
			out = append(out, s.Func)
		}
	}
	return out
}

// InFuncs returns a predicate: is the site inside one of the named functions.
func (t *SiteTable) InFuncs(names []string) func(uint32) bool {
	want := map[string]bool{}
	for _, n := range names {
		want[n] = true
	}
	in := make([]bool, len(t.Sites))
	for i, s := range t.Sites {
		in[i] = want[s.Func]
	}
	ent := want["<entropy device>"]
	return func(s uint32) bool {
		if s == SiteEntropy {
			return ent
		}
		return int(s) < len(in) && in[s]
	}
}
