package model

import (
	"embed"
	"encoding/json"
	"fmt"
	"math/big"
	"strings"
)

//go:embed vectors/*.json
var vectorFS embed.FS

type vecFile struct {
	Ciphersuite string `json:"ciphersuite"`
	Dst         string `json:"dst"`
	Vectors     []struct {
		P, Q, Q0, Q1 struct{ X, Y string }
		Msg          string
		U            []string
	} `json:"vectors"`
}

func h0x(s string) *big.Int { return hexInt(strings.TrimPrefix(s, "0x")) }

// Selftest validates the model against itself and against the RFC 9380
// vectors (copies of the published vectors; intermediate u, Q0, Q1 included).
// It involves no code under test. A failure is a harness fault (exit 2).
func Selftest(rnd func() uint64) error {
	// group sanity
	g := G()
	if !g.Valid() {
		return fmt.Errorf("G not on curve")
	}
	if !Mul(N, g).IsInf() {
		return fmt.Errorf("[n]G != inf")
	}
	nm1 := new(big.Int).Sub(N, one)
	if !Mul(nm1, g).Eq(Neg(g)) {
		return fmt.Errorf("[n-1]G != -G")
	}
	// isogeny constants: random points of E' must land on E
	found := 0
	for i := 0; found < 64 && i < 4096; i++ {
		x := new(big.Int)
		for j := 0; j < 4; j++ {
			x.Lsh(x, 64)
			x.Or(x, new(big.Int).SetUint64(rnd()))
		}
		x.Mod(x, P)
		y, ok := SqrtP(gPrime(x))
		if !ok {
			continue
		}
		found++
		if !OnIso(x, y) {
			return fmt.Errorf("sqrt self-check failed")
		}
		q := Iso3(x, y)
		if !q.Valid() {
			return fmt.Errorf("isogeny image off curve for x'=%x", x)
		}
	}
	if found < 64 {
		return fmt.Errorf("could not sample E'")
	}
	files, err := vectorFS.ReadDir("vectors")
	if err != nil {
		return err
	}
	n := 0
	for _, f := range files {
		raw, err := vectorFS.ReadFile("vectors/" + f.Name())
		if err != nil {
			return err
		}
		var vf vecFile
		if err := json.Unmarshal(raw, &vf); err != nil {
			return err
		}
		for _, v := range vf.Vectors {
			want := Point{h0x(v.P.X), h0x(v.P.Y)}
			var got Point
			switch {
			case strings.HasSuffix(vf.Ciphersuite, "_RO_"):
				u := HashToField([]byte(v.Msg), []byte(vf.Dst), 2, P)
				if u[0].Cmp(h0x(v.U[0])) != 0 || u[1].Cmp(h0x(v.U[1])) != 0 {
					return fmt.Errorf("%s msg=%q: u mismatch", vf.Ciphersuite, v.Msg)
				}
				q0, q1 := MapToCurve(u[0]), MapToCurve(u[1])
				if !q0.Eq(Point{h0x(v.Q0.X), h0x(v.Q0.Y)}) || !q1.Eq(Point{h0x(v.Q1.X), h0x(v.Q1.Y)}) {
					return fmt.Errorf("%s msg=%q: Q0/Q1 mismatch", vf.Ciphersuite, v.Msg)
				}
				got = HashToCurve([]byte(v.Msg), []byte(vf.Dst))
			case strings.HasSuffix(vf.Ciphersuite, "_NU_"):
				u := HashToField([]byte(v.Msg), []byte(vf.Dst), 1, P)
				if u[0].Cmp(h0x(v.U[0])) != 0 {
					return fmt.Errorf("%s msg=%q: u mismatch", vf.Ciphersuite, v.Msg)
				}
				got = EncodeToCurve([]byte(v.Msg), []byte(vf.Dst))
			default:
				return fmt.Errorf("unknown suite %q", vf.Ciphersuite)
			}
			if !got.Eq(want) {
				return fmt.Errorf("%s msg=%q: P mismatch", vf.Ciphersuite, v.Msg)
			}
			n++
		}
	}
	if n != 10 {
		return fmt.Errorf("expected 10 RFC vectors, ran %d", n)
	}
	return nil
}
