// Package model is the executable reference model: the secp256k1 group, its
// scalar field, SEC1 encodings and the RFC 9380 suites, written from the
// mathematics with math/big only. Nothing here is taken from the code under
// test: different coordinates (affine, textbook chord-and-tangent), different
// scalar multiplication (left-to-right double-and-add), different SSWU form
// (RFC 9380 section 6.6.2, not the straight-line appendix), constants in hex as
// printed in the standards.
package model

import (
	"crypto/sha256"
	"errors"
	"math/big"
)

func hexInt(s string) *big.Int {
	v, ok := new(big.Int).SetString(s, 16)
	if !ok {
		panic("model: bad hex constant " + s)
	}
	return v
}

var (
	// P is the field prime 2^256 - 2^32 - 977 (SEC 2).
	P = hexInt("fffffffffffffffffffffffffffffffffffffffffffffffffffffffefffffc2f")
	// N is the group order (SEC 2).
	N = hexInt("fffffffffffffffffffffffffffffffebaaedce6af48a03bbfd25e8cd0364141")
	// Gx, Gy: base point (SEC 2).
	Gx = hexInt("79be667ef9dcbbac55a06295ce870b07029bfcdb2dce28d959f2815b16f81798")
	Gy = hexInt("483ada7726a3c4655da4fbfc0e1108a8fd17b448a68554199c47d08ffb10d4b8")

	seven = big.NewInt(7)
	three = big.NewInt(3)
	two   = big.NewInt(2)
	one   = big.NewInt(1)
)

// Point is an affine point of secp256k1, or infinity when X == nil.
type Point struct{ X, Y *big.Int }

// Inf is the identity.
func Inf() Point { return Point{} }

// G is the generator.
func G() Point { return Point{new(big.Int).Set(Gx), new(big.Int).Set(Gy)} }

// IsInf reports whether p is the identity.
func (p Point) IsInf() bool { return p.X == nil }

// Clone returns an independent copy.
func (p Point) Clone() Point {
	if p.IsInf() {
		return Point{}
	}
	return Point{new(big.Int).Set(p.X), new(big.Int).Set(p.Y)}
}

// Eq is equality of group elements.
func (p Point) Eq(q Point) bool {
	if p.IsInf() || q.IsInf() {
		return p.IsInf() && q.IsInf()
	}
	return p.X.Cmp(q.X) == 0 && p.Y.Cmp(q.Y) == 0
}

func mod(x *big.Int) *big.Int { return x.Mod(x, P) }

// OnCurve reports y^2 = x^3 + 7 (mod p) with both coordinates in [0, p).
func OnCurve(x, y *big.Int) bool {
	if x.Sign() < 0 || y.Sign() < 0 || x.Cmp(P) >= 0 || y.Cmp(P) >= 0 {
		return false
	}
	l := new(big.Int).Mul(y, y)
	mod(l)
	r := new(big.Int).Mul(x, x)
	r.Mul(r, x)
	r.Add(r, seven)
	mod(r)
	return l.Cmp(r) == 0
}

// Valid reports that p is the identity or a curve point.
func (p Point) Valid() bool { return p.IsInf() || OnCurve(p.X, p.Y) }

// Neg returns -p.
func Neg(p Point) Point {
	if p.IsInf() {
		return Point{}
	}
	y := new(big.Int).Sub(P, p.Y)
	mod(y)
	return Point{new(big.Int).Set(p.X), y}
}

// Add is the textbook group law with explicit case analysis.
func Add(p, q Point) Point {
	switch {
	case p.IsInf():
		return q.Clone()
	case q.IsInf():
		return p.Clone()
	}
	var lam *big.Int
	if p.X.Cmp(q.X) == 0 {
		if p.Y.Cmp(q.Y) != 0 || p.Y.Sign() == 0 {
			return Point{} // q = -p
		}
		// tangent: 3x^2 / 2y
		num := new(big.Int).Mul(p.X, p.X)
		num.Mul(num, three)
		den := new(big.Int).Mul(p.Y, two)
		den.ModInverse(mod(den), P)
		lam = num.Mul(num, den)
	} else {
		num := new(big.Int).Sub(q.Y, p.Y)
		den := new(big.Int).Sub(q.X, p.X)
		den.ModInverse(mod(den), P)
		lam = num.Mul(num, den)
	}
	mod(lam)
	x := new(big.Int).Mul(lam, lam)
	x.Sub(x, p.X)
	x.Sub(x, q.X)
	mod(x)
	y := new(big.Int).Sub(p.X, x)
	y.Mul(y, lam)
	y.Sub(y, p.Y)
	mod(y)
	return Point{x, y}
}

// Double returns 2p.
func Double(p Point) Point { return Add(p, p) }

// Sub returns p - q.
func Sub(p, q Point) Point { return Add(p, Neg(q)) }

// Mul returns [k]p for k >= 0 by left-to-right double-and-add.
func Mul(k *big.Int, p Point) Point {
	if k.Sign() < 0 {
		panic("model: negative scalar")
	}
	r := Point{}
	for i := k.BitLen() - 1; i >= 0; i-- {
		r = Double(r)
		if k.Bit(i) == 1 {
			r = Add(r, p)
		}
	}
	return r
}

func be32(x *big.Int) []byte {
	var out [32]byte
	x.FillBytes(out[:])
	return out[:]
}

// EncodeCompressed is SEC1 compressed form; the identity is the single byte 00.
func EncodeCompressed(p Point) []byte {
	if p.IsInf() {
		return []byte{0}
	}
	out := make([]byte, 0, 33)
	out = append(out, byte(2+p.Y.Bit(0)))
	return append(out, be32(p.X)...)
}

// EncodeUncompressed is 04||x||y. It is defined for non-identity points only.
func EncodeUncompressed(p Point) []byte {
	if p.IsInf() {
		return nil
	}
	out := make([]byte, 0, 65)
	out = append(out, 4)
	out = append(out, be32(p.X)...)
	return append(out, be32(p.Y)...)
}

// ErrReject is returned by every decoder for every rejected input.
var ErrReject = errors.New("model: rejected")

// SqrtP returns a square root of a mod p, if one exists (p = 3 mod 4).
func SqrtP(a *big.Int) (*big.Int, bool) {
	e := new(big.Int).Add(P, one)
	e.Rsh(e, 2)
	r := new(big.Int).Exp(a, e, P)
	c := new(big.Int).Mul(r, r)
	mod(c)
	am := new(big.Int).Mod(a, P)
	return r, c.Cmp(am) == 0
}

// DecodeCompressed accepts exactly 33 bytes 02/03||x, x < p, x^3+7 square.
func DecodeCompressed(b []byte) (Point, error) {
	if len(b) != 33 || (b[0] != 2 && b[0] != 3) {
		return Point{}, ErrReject
	}
	x := new(big.Int).SetBytes(b[1:])
	if x.Cmp(P) >= 0 {
		return Point{}, ErrReject
	}
	rhs := new(big.Int).Mul(x, x)
	rhs.Mul(rhs, x)
	rhs.Add(rhs, seven)
	mod(rhs)
	y, ok := SqrtP(rhs)
	if !ok {
		return Point{}, ErrReject
	}
	if y.Bit(0) != uint(b[0]&1) {
		y.Sub(P, y)
		mod(y)
	}
	return Point{x, y}, nil
}

// DecodeCoordinates accepts exactly x, y < p on the curve.
func DecodeCoordinates(xb, yb []byte) (Point, error) {
	if len(xb) != 32 || len(yb) != 32 {
		return Point{}, ErrReject
	}
	x := new(big.Int).SetBytes(xb)
	y := new(big.Int).SetBytes(yb)
	if !OnCurve(x, y) {
		return Point{}, ErrReject
	}
	return Point{x, y}, nil
}

// DecodeUncompressed accepts exactly 65 bytes 04||x||y on the curve.
func DecodeUncompressed(b []byte) (Point, error) {
	if len(b) != 65 || b[0] != 4 {
		return Point{}, ErrReject
	}
	return DecodeCoordinates(b[1:33], b[33:])
}

// Decode is the general decoder: 00 | compressed | uncompressed.
func Decode(b []byte) (Point, error) {
	switch len(b) {
	case 1:
		if b[0] == 0 {
			return Point{}, nil
		}
		return Point{}, ErrReject
	case 33:
		return DecodeCompressed(b)
	case 65:
		return DecodeUncompressed(b)
	}
	return Point{}, ErrReject
}

// ---------------------------------------------------------------------------
// scalars: plain integers mod N

// SMod reduces into [0, N).
func SMod(x *big.Int) *big.Int { return new(big.Int).Mod(x, N) }

// SInv is the inverse mod N, with 0 -> 0.
func SInv(x *big.Int) *big.Int {
	if x.Sign() == 0 {
		return new(big.Int)
	}
	return new(big.Int).ModInverse(x, N)
}

// SPow is s^t mod N (s^0 = 1).
func SPow(s, t *big.Int) *big.Int { return new(big.Int).Exp(s, t, N) }

// SEncode is the canonical 32-byte big-endian encoding.
func SEncode(x *big.Int) []byte { return be32(x) }

// Scalar decode outcomes.
const (
	SDecOK = iota
	SDecEmpty
	SDecLength
	SDecTooBig
)

// SDecode classifies b as the scalar decoder must.
func SDecode(b []byte) (*big.Int, int) {
	switch {
	case len(b) == 0:
		return nil, SDecEmpty
	case len(b) != 32:
		return nil, SDecLength
	}
	x := new(big.Int).SetBytes(b)
	if x.Cmp(N) >= 0 {
		return nil, SDecTooBig
	}
	return x, SDecOK
}

// ---------------------------------------------------------------------------
// RFC 9380

// ExpandXMD is expand_message_xmd with SHA-256 (RFC 9380 section 5.3.1, and
// 5.3.3 for DSTs longer than 255 bytes). dst must be non-empty.
func ExpandXMD(msg, dst []byte, length int) []byte {
	if len(dst) == 0 {
		panic("model: empty DST")
	}
	if len(dst) > 255 {
		h := sha256.New()
		h.Write([]byte("H2C-OVERSIZE-DST-"))
		h.Write(dst)
		dst = h.Sum(nil)
	}
	ell := (length + 31) / 32
	if ell > 255 || length > 65535 {
		panic("model: bad length")
	}
	dstPrime := append(append([]byte{}, dst...), byte(len(dst)))
	h := sha256.New()
	h.Write(make([]byte, 64))
	h.Write(msg)
	h.Write([]byte{byte(length >> 8), byte(length)})
	h.Write([]byte{0})
	h.Write(dstPrime)
	b0 := h.Sum(nil)
	h = sha256.New()
	h.Write(b0)
	h.Write([]byte{1})
	h.Write(dstPrime)
	bi := h.Sum(nil)
	out := append([]byte{}, bi...)
	for i := 2; i <= ell; i++ {
		x := make([]byte, 32)
		for j := range x {
			x[j] = b0[j] ^ bi[j]
		}
		h = sha256.New()
		h.Write(x)
		h.Write([]byte{byte(i)})
		h.Write(dstPrime)
		bi = h.Sum(nil)
		out = append(out, bi...)
	}
	return out[:length]
}

// HashToField is hash_to_field with m = 1, L = 48 over the given modulus.
func HashToField(msg, dst []byte, count int, modulus *big.Int) []*big.Int {
	u := ExpandXMD(msg, dst, 48*count)
	res := make([]*big.Int, count)
	for i := range res {
		v := new(big.Int).SetBytes(u[48*i : 48*(i+1)])
		res[i] = v.Mod(v, modulus)
	}
	return res
}

// HashToScalar is hash_to_field over the group order, count = 1.
func HashToScalar(msg, dst []byte) *big.Int { return HashToField(msg, dst, 1, N)[0] }

var (
	// E': y^2 = x^3 + A'x + B' (RFC 9380 section 8.7).
	IsoA = hexInt("3f8731abdd661adca08a5558f0f5d272e953d363cb6f0e5d405447c01a444533")
	IsoB = big.NewInt(1771)
	// Z = -11.
	SswuZ = new(big.Int).Sub(P, big.NewInt(11))
)

func fadd(a, b *big.Int) *big.Int { return mod(new(big.Int).Add(a, b)) }
func fsub(a, b *big.Int) *big.Int { return mod(new(big.Int).Sub(a, b)) }
func fmul(a, b *big.Int) *big.Int { return mod(new(big.Int).Mul(a, b)) }
func finv0(a *big.Int) *big.Int {
	if new(big.Int).Mod(a, P).Sign() == 0 {
		return new(big.Int)
	}
	return new(big.Int).ModInverse(a, P)
}

func isSquare(a *big.Int) bool {
	am := new(big.Int).Mod(a, P)
	if am.Sign() == 0 {
		return true
	}
	e := new(big.Int).Sub(P, one)
	e.Rsh(e, 1)
	return new(big.Int).Exp(am, e, P).Cmp(one) == 0
}

func gPrime(x *big.Int) *big.Int {
	r := fmul(fmul(x, x), x)
	r = fadd(r, fmul(IsoA, x))
	return fadd(r, IsoB)
}

// SSWU is map_to_curve_simple_swu onto E' in the generic form of RFC 9380
// section 6.6.2.
func SSWU(u *big.Int) (x, y *big.Int) {
	u2 := fmul(u, u)
	zu2 := fmul(SswuZ, u2)
	tv1 := finv0(fadd(fmul(zu2, zu2), zu2))
	var x1 *big.Int
	if tv1.Sign() == 0 {
		x1 = fmul(IsoB, finv0(fmul(SswuZ, IsoA)))
	} else {
		x1 = fmul(fmul(fsub(new(big.Int), IsoB), finv0(IsoA)), fadd(one, tv1))
	}
	gx1 := gPrime(x1)
	x2 := fmul(zu2, x1)
	gx2 := gPrime(x2)
	if isSquare(gx1) {
		x = x1
		y, _ = SqrtP(gx1)
	} else {
		x = x2
		var ok bool
		y, ok = SqrtP(gx2)
		if !ok {
			panic("model: SSWU: neither candidate is square")
		}
	}
	if u.Bit(0) != y.Bit(0) {
		y = fsub(new(big.Int), y)
	}
	return x, y
}

// 3-isogeny map constants, RFC 9380 appendix E.1.
var (
	k10 = hexInt("8e38e38e38e38e38e38e38e38e38e38e38e38e38e38e38e38e38e38daaaaa8c7")
	k11 = hexInt("7d3d4c80bc321d5b9f315cea7fd44c5d595d2fc0bf63b92dfff1044f17c6581")
	k12 = hexInt("534c328d23f234e6e2a413deca25caece4506144037c40314ecbd0b53d9dd262")
	k13 = hexInt("8e38e38e38e38e38e38e38e38e38e38e38e38e38e38e38e38e38e38daaaaa88c")
	k20 = hexInt("d35771193d94918a9ca34ccbb7b640dd86cd409542f8487d9fe6b745781eb49b")
	k21 = hexInt("edadc6f64383dc1df7c4b2d51b54225406d36b641f5e41bbc52a56612a8c6d14")
	k30 = hexInt("4bda12f684bda12f684bda12f684bda12f684bda12f684bda12f684b8e38e23c")
	k31 = hexInt("c75e0c32d5cb7c0fa9d0a54b12a0a6d5647ab046d686da6fdffc90fc201d71a3")
	k32 = hexInt("29a6194691f91a73715209ef6512e576722830a201be2018a765e85a9ecee931")
	k33 = hexInt("2f684bda12f684bda12f684bda12f684bda12f684bda12f684bda12f38e38d84")
	k40 = hexInt("fffffffffffffffffffffffffffffffffffffffffffffffffffffffefffff93b")
	k41 = hexInt("7a06534bb8bdb49fd5e9e6632722c2989467c1bfc8e8d978dfb425d2685c2573")
	k42 = hexInt("6484aa716545ca2cf3a70c3fa8fe337e0a3d21162f0d6299a7bf8192bfd2a76f")
)

// Iso3 maps a point of E' to secp256k1 (identity when a denominator vanishes).
func Iso3(x, y *big.Int) Point {
	x2 := fmul(x, x)
	x3 := fmul(x2, x)
	xnum := fadd(fadd(fadd(fmul(k13, x3), fmul(k12, x2)), fmul(k11, x)), k10)
	xden := fadd(fadd(x2, fmul(k21, x)), k20)
	ynum := fadd(fadd(fadd(fmul(k33, x3), fmul(k32, x2)), fmul(k31, x)), k30)
	yden := fadd(fadd(fadd(x3, fmul(k42, x2)), fmul(k41, x)), k40)
	if xden.Sign() == 0 || yden.Sign() == 0 {
		return Point{}
	}
	return Point{fmul(xnum, finv0(xden)), fmul(y, fmul(ynum, finv0(yden)))}
}

// MapToCurve is SSWU followed by the isogeny.
func MapToCurve(u *big.Int) Point {
	x, y := SSWU(u)
	return Iso3(x, y)
}

// HashToCurve is secp256k1_XMD:SHA-256_SSWU_RO_.
func HashToCurve(msg, dst []byte) Point {
	u := HashToField(msg, dst, 2, P)
	return Add(MapToCurve(u[0]), MapToCurve(u[1]))
}

// EncodeToCurve is secp256k1_XMD:SHA-256_SSWU_NU_.
func EncodeToCurve(msg, dst []byte) Point {
	u := HashToField(msg, dst, 1, P)
	return MapToCurve(u[0])
}

// OnIso reports whether (x, y) is on E'.
func OnIso(x, y *big.Int) bool { return fmul(y, y).Cmp(gPrime(x)) == 0 }
