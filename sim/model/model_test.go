package model

import (
	"math/rand"
	"testing"
)

func TestSelftest(t *testing.T) {
	r := rand.New(rand.NewSource(1))
	if err := Selftest(r.Uint64); err != nil {
		t.Fatal(err)
	}
}
