#!/bin/sh
# Offline setup: compile the simulator variants once so that the Go build cache
# is warm. Nothing is downloaded; nothing a check needs is left under /tmp.
set -e
HERE=$(cd "$(dirname "$0")" && pwd)
export GOFLAGS=-mod=mod GOPROXY=off GOSUMDB=off GOTOOLCHAIN=local
D="$HERE/.work/setup.$$"
trap 'rm -rf "$D"' EXIT
"$HERE/check" build "$D" plain entry full
"$D/gs-plain" selftest-model
echo "setup ok"
